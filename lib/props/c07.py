"""C07 - subsetting preserves the outlines and metrics of retained glyphs.

spec -> impl : TLC explores MC_Subset (every composite graph on NG glyphs with a bounded number of components,
               self reference and cycles included, x every list of distinct glyph ids starting with 0 x
               numberOfHMetrics, component records from templates: every transform kind, argument width, flag;
               instructions), one action per loop step of GlyfTable::subset and of create_hmtx_table, checks
               the design invariants of Subset.tla (requested ids stay the prefix, closure complete and nothing
               else, components renumbered, every other component field kept, old/new maps inverse, SubsetRelation) and prints one CASE per
               finished run. The harness synthesizes the glyf font of each case, calls allsorts' subset::subset,
               reads the output with independent readers and compares with TLC's prescription by JSON equality.
               MC_SubsetCff does the same for name-keyed CFF sources: every assignment of names (in and out of ISOAdobe
               order) x accented glyphs (seac) x request list, the representation of the source (hdrSize, offSize, Top DICT
               order, charset / Encoding forms, block order, Private DICT variants) rotating; replayed through subset and
               prince::subset, the output read through allsorts' visitor AND by independent charset / charstring readers.
               MC_SubsetCid does it for CID-keyed (and name-keyed) CFF sources with subroutines: every assignment of the glyphs
               to Font DICTs x call pattern per glyph (nested calls, a local subroutine reached only through a global one) x
               request list, subroutine counts on both sides of the bias boundaries (1239 / 1240, 33899 / 33900), FDSelect
               format 0 / 3; the output read through allsorts' visitor AND by an independent FDSelect / Subr INDEX walker.
impl -> spec : repository fonts (glyf, CFF name-keyed / CID-keyed / with subroutines, CFF2) and synthesized CFF-family fonts
               whose glyphs carry operands on every Type 2 number-encoding boundary (OpenType, re-wrapped as
               WOFF / WOFF2, the repository's own WOFF / WOFF2 files) x glyph id lists from patterns through
               subset::subset and subset::prince::subset; a sample of the generated cases too. Judged by
               Trace_Subset (SubsetRelation on recorded facts).
"""
import json
import os
import threading

import vlib
from vlib import Violation

LEVEL = "model_checking"

ASSUMPTIONS = [
    "the order of the glyphs pulled in as composite components is left open by the property (Dev_ClosureOrder): "
    "any order after the requested glyphs is accepted; the model's machine appends a component when first met, as allsorts does",
    "outlines are compared as the command sequences allsorts' own visitors deliver on the source and on the output "
    "(coordinates rounded to 1/16384 unit); a `close` that closes nothing is not part of an outline",
    "for glyf fonts the independent reader additionally demands equal records: contours point by point, instructions, components "
    "field by field (flags that bear on the glyph, both arguments, every F2Dot14 value of the transform) in everything but the "
    "(renumbered) glyph id; bytes or words for the arguments is an encoding choice (Dev_ArgWidth), bounding boxes and reserved "
    "flag bits are not compared",
    "the outline of a generated composite is stated as its leaves under the placement (flags, arguments, transform) of every "
    "component passed (Dev_OutlineAsPlacementPath: finer than geometry, exact 2.14 composition does not fit TLC's integers); the "
    "geometric comparison is made by the judge on what allsorts' outline visitor delivers for source and output",
    "the value of a hint operand, the width operand of a converted charstring and DICT operands do not show in an outline: the "
    "operand writers are exercised through path coordinates on every number-encoding boundary",
    "CFF2 sources are compared at the default instance; subsetting a variable CFF2 font is refused by allsorts "
    "(MissingVariationStore), which is outside 'a successful subset'",
    "a cyclic or too deeply nested composite has no outline on either side and only its metrics are compared",
    "a subset that returns an error is outside the property; a panic on a font allsorts itself loads is a violation",
    "charset, FDSelect and kept subroutines of CFF outputs are implementation choices: only interpreted outlines are compared",
    "the property is stated on the abstract font: how the source stores it (numberOfContours -1 / -2 / -32768 of a composite, loca "
    "short / long / unpadded / with unused bytes, a glyph without contours as no bytes or as a zero-contour record with or without "
    "instructions, flag encodings of simple glyphs, numberOfHMetrics from 1 to numGlyphs, sorted or unsorted table directory, CFF "
    "charset formats 0/1/2 and FDSelect formats 0/3) is a representation choice the prescription does not depend on (Subset.tla RepIndependent)",
    "CFF subsets hold exactly the requested glyphs (nothing is pulled in): the outline of an accented glyph (seac form of endchar) is "
    "demanded when its base and accent are among the requested glyphs; when one is not it may be missing, but if it draws it draws what "
    "it drew in the source (Subset.tla Dev_SeacComponentsNotPulledIn)",
    "how a CFF source is stored (hdrSize 4 / 5 / 8, header offSize, INDEX offSize larger than needed, order of the Top DICT operators, "
    "offset operand forms, charset format 0 / 1 / 2 / predefined ISOAdobe (by omission or `0 charset`) / Expert / ExpertSubset, Encoding "
    "absent / predefined / custom, order of the data blocks, Private DICT with or without Subrs and defaultWidthX / nominalWidthX, glyph "
    "order in or out of ISOAdobe order, more or fewer than 229 glyphs) is a representation choice the prescription does not depend on "
    "(Subset.tla CffRepIndependent); nested accented glyphs are compared through the visitor only where it reads the source as the model does",
    "retained sets on the size boundaries of what the subsetters write are chosen from the source's own lengths (subset-sum); where the "
    "implementation chooses encodings (Top DICT, FDArray, everything on the CFF2 -> CFF path) a ladder of sources / lists steps through "
    "a window of predicted sizes; what the independent reader then measures in the output is recorded and required last",
]

# families of component records that retained composites of REPOSITORY fonts must show in every recording
# (selection by property: fonts and composites that carry them are preferred, see record() / featured_composites)
RECORDED_COMPOSITE_FAMILIES = tuple("composite_retained:" + f for f in (
    "tr:none", "tr:scale", "tr:xy-scale", "tr:two-by-two", "tr:two-by-two-asymmetric", "tr:negative-value",
    "args:bytes", "args:words", "args:negative-offset", "instructions", "flag:use-my-metrics",
    "flag:round-xy-to-grid", "flag:unscaled-component-offset"))

# charstring re-encoding: the boundary glyphs of the synthesized CFF-family fonts (c07_subset/syn.rs) must have been
# retained, with their source outline delivered, on every path that rebuilds charstrings
KEY_VALUES = ["-32768", "-1132", "-1131", "-108", "-107", "107", "108", "1131", "1132", "32767", "fixed-16.16"]
BOUNDARY_FAMILIES = ["moves", "rlineto", "hvlineto", "rrcurveto", "hhcurveto", "vvcurveto", "hvcurveto", "vhcurveto", "rcurveline",
                     "rlinecurve", "flex", "hflex", "hflex1", "flex1", "stems", "stemhm", "hintmask", "fixed", "extremes", "long-form"]
SUBR_FAMILIES = ["subr-arguments", "subr-body", "gsubr-body"]
BOUNDARY_PATHS = {
    "cff2-to-cff": BOUNDARY_FAMILIES,                     # CFF2 -> name-keyed CFF: every operand is re-encoded (StackValue writer)
    "cff2-to-cid": BOUNDARY_FAMILIES,                     # CFF2 -> CID-keyed CFF (several Font DICTs / more than 255 glyphs)
    "cff-subset": BOUNDARY_FAMILIES + SUBR_FAMILIES,      # name-keyed CFF: charstrings and used subroutines into rebuilt INDEXes
    "type1-to-cid": BOUNDARY_FAMILIES + SUBR_FAMILIES,    # name-keyed CFF, more than 255 glyphs -> CID-keyed
    "cid-subset": BOUNDARY_FAMILIES + SUBR_FAMILIES,      # CID-keyed CFF: FDSelect / Font DICTs / local subroutines rebuilt
}
RECORDED_BOUNDARY_KEYS = tuple(
    ["boundary:%s:value:%s" % (p, v) for p in BOUNDARY_PATHS for v in KEY_VALUES] +
    ["boundary:%s:family:%s" % (p, f) for p, fams in BOUNDARY_PATHS.items() for f in fams])

CONFIGS = {
    "quick": [("MC_Subset_quick.cfg", 25)],
    "thorough": [("MC_Subset_thorough_a.cfg", 60), ("MC_Subset_thorough_b.cfg", 60)],
}
CFF_CONFIGS = {"quick": "MC_SubsetCff_quick.cfg", "thorough": "MC_SubsetCff_thorough.cfg"}

# name-keyed CFF cases (MC_SubsetCff): what the replayed cases must exercise, counted by the harness from the cases (inputs)
CFF_CASE_FEATURES = (
    ["rep:hdr=%d" % h for h in (4, 5, 8)] + ["rep:hoff=%d" % h for h in (1, 2, 3, 4)] + ["rep:ioff=%d" % h for h in (0, 2, 3, 4)] +
    ["rep:top=%d" % h for h in range(4)] + ["rep:short=true", "rep:short=false"] +
    ["rep:charset=%s" % c for c in ("f0", "f1", "f2", "iso-omitted", "iso-0")] +
    ["rep:enc=%s" % c for c in ("absent", "standard", "expert", "custom0", "custom1")] +
    ["rep:blocks=%d" % h for h in range(3)] + ["rep:gap=0", "rep:gap=3", "rep:priv=0", "rep:priv=1", "rep:subrs=true", "rep:subrs=false"] +
    ["rep:widths=%d" % h for h in range(4)] +
    ["names:isoadobe-order", "names:other-order", "accented:components-requested", "accented:component-not-requested",
     "accented:closed-in-prefix-request:isoadobe-order", "accented:closed-in-prefix-request:other-order",
     "accented:closed-in-permuted-request", "accented:source-has-no-outline"])

# CID-keyed / subroutine cases (MC_SubsetCid): what the replayed cases must exercise, counted by the harness from the cases (inputs)
CID_CONFIGS = {"quick": "MC_SubsetCid_quick.cfg", "thorough": "MC_SubsetCid_thorough.cfg"}
CID_CASE_FEATURES = (
    ["rep:hdr=%d" % h for h in (4, 5, 8)] + ["rep:hoff=%d" % h for h in (1, 2, 3, 4)] + ["rep:ioff=%d" % h for h in (0, 3, 4)] +
    ["rep:top=%d" % h for h in range(4)] + ["rep:short=true", "rep:short=false"] + ["rep:charset=%s" % c for c in ("f0", "f1", "f2")] +
    ["rep:fdsel=0", "rep:fdsel=3"] + ["rep:blocks=%d" % h for h in range(3)] + ["rep:gap=0", "rep:gap=3", "kind:cid-keyed", "kind:name-keyed"] +
    ["%s-subrs:bias-%d" % (w, b) for w in ("local", "global") for b in (107, 1131, 32768)] +
    ["%s-subrs:count-%d" % (w, c) for w in ("local", "global") for c in (1239, 1240, 33899, 33900)] +
    ["global-index:dropped", "global-index:kept", "local-index:dropped", "local-index:kept", "local-index:dropped:no-glyph-of-its-font-dict-requested",
     "local-index:dropped:requested-glyphs-call-none", "local-index:kept-with-unused-entries", "local-index:one-kept-one-dropped",
     "font-dicts-of-requested-glyphs:1", "font-dicts-of-requested-glyphs:2", "fdselect:new-glyph-in-another-font-dict-than-the-old-glyph-of-that-id",
     "glyph:local-subr-only-through-a-global-one", "glyph:nested-local-global-local", "request:all", "request:notdef-only"])

# recorded name-keyed CFF sources with accented glyphs and representation variants (c07_subset/cffrep.rs): plan names and
# representation facts, tallied when the call is made (harness inputs)
SEAC_PLANS = ["all", "prefix:fewer-than-228", "prefix:228-or-229", "prefix:more-than-229", "prefix:more-than-255",
              "accented-first-components-reversed", "minimal-closed", "minimal-closed-reordered", "all-reversed",
              "components-omitted", "accent-omitted", "base-omitted", "components-alone"]


def _cffrep_keys():
    k = []
    for what in SEAC_PLANS:
        for order in ("iso-order", "other-order"):
            k.append("seac:%s:%s|cff|subset" % (what, order))
            if what not in ("all-reversed", "accent-omitted", "base-omitted", "components-alone"):
                k.append("seac:%s:%s|cff|prince" % (what, order))
    k += ["rep:%s|%s|%s" % (l, kind, api) for l in ("all", "prefix", "permuted") for kind in ("cff", "cid") for api in ("subset", "prince")]
    for kind in ("cff", "cid"):
        k += ["rep:source:%s:hdr-size-%d" % (kind, h) for h in (4, 5, 8)]
        k += ["rep:source:%s:header-off-size-%d" % (kind, h) for h in (1, 2, 4)]
        k += ["rep:source:%s:index-off-size-%s" % (kind, h) for h in ("minimal", "2", "3")]
        k += ["rep:source:%s:top-dict-order-%d" % (kind, h) for h in range(4)]
        k += ["rep:source:%s:offsets-%s" % (kind, h) for h in ("shortest-form", "five-byte-form")]
        k += ["rep:source:%s:block-order-%d" % (kind, h) for h in range(3)]
        k += ["rep:source:%s:subrs-gap-0" % kind]
    k += ["rep:source:cff:hdr-size-12", "rep:source:cff:header-off-size-3", "rep:source:cff:index-off-size-4", "rep:source:cff:subrs-gap-3"]
    k += ["rep:source:cff:charset-%s" % c for c in ("format-0", "format-1", "format-2", "isoadobe-by-omission", "isoadobe-predefined",
                                                    "expert-predefined", "expertsubset-predefined")]
    k += ["rep:source:cff:encoding-%s" % c for c in ("absent", "standard-predefined", "expert-predefined", "custom-format-0", "custom-format-1")]
    k += ["rep:source:cff:private-dict-order-0", "rep:source:cff:private-dict-order-1", "rep:source:cff:private-with-subrs",
          "rep:source:cff:private-without-subrs"]
    k += ["rep:source:cff:widths-%s" % w for w in ("none", "defaultWidthX", "nominalWidthX", "defaultWidthX+nominalWidthX")]
    k += ["rep:source:cff:glyph-order-%s" % o for o in ("isoadobe", "swap", "reverse", "late-swap", "expert", "expertsubset")]
    k += ["rep:source:cff:glyphs-%s" % c for c in ("fewer-than-229", "229", "230-to-255", "more-than-255")]
    k += ["seac:accented-glyph-retained-with-its-components", "seac:accented-glyph-retained-without-a-component",
          "seac:accented-glyph-in-front-of-its-base", "seac:component-glyph-retained"]
    return k


def _case_features(c):
    f = []
    comp = c["comp"]
    req = c["req"]
    exp = c["exp"]
    n = c["n"]
    if exp["n"] > len(req):
        f.append("closure_pulls_in_components")
    if exp["n"] > len(req) + 1:
        f.append("closure_pulls_in_several")
    order = exp["order"]
    for g in order:
        for t in comp[g]:
            if comp[t[0]]:
                f.append("nested_composite")
            if t[0] == g:
                f.append("self_reference")
    targets = [t[0] for g in order for t in comp[g]]
    if len(targets) != len(set(targets)):
        f.append("shared_or_repeated_component")
    if any(e[0] == [[-1, []]] for e in exp["head"] + exp["tail"]):
        f.append("cyclic_glyph_retained")
    # families of component records among the retained composites (t = [gid, flags, words, a1, a2, transform])
    for g in order:
        if comp[g] and c["instr"][g]:
            f.append("composite_with_instructions")
        for t in comp[g]:
            fl, words, a1, a2, tr = t[1], t[2], t[3], t[4], t[5]
            f.append("comp_tr_" + {0: "none", 1: "scale", 2: "xy_scale", 4: "two_by_two"}[len(tr)])
            if len(tr) == 4 and tr[1] != tr[2]:
                f.append("comp_tr_two_by_two_asymmetric")
            if any(v < 0 for v in tr):
                f.append("comp_tr_negative_value")
            if any(v in (32767, -32768) for v in tr):
                f.append("comp_tr_extreme_value")
            f.append("comp_args_words" if words else "comp_args_bytes")
            if fl & 2:
                if a1 < 0 or a2 < 0:
                    f.append("comp_args_negative_offset")
                if not words and (a1 in (-128, 127)):
                    f.append("comp_args_int8_boundary")
                if words and (a1 in (-129, 128)):
                    f.append("comp_args_just_beyond_int8")
                if words and -128 <= a1 <= 127 and -128 <= a2 <= 127:
                    f.append("comp_args_words_where_bytes_would_do")
                if words and (a1 in (32767, -32768) or a2 in (32767, -32768)):
                    f.append("comp_args_int16_extreme")
            else:
                f.append("comp_args_point_numbers")
            for bit, name in ((4, "round_xy_to_grid"), (0x200, "use_my_metrics"), (0x400, "overlap_compound"),
                              (0x800, "scaled_component_offset"), (0x1000, "unscaled_component_offset")):
                if fl & bit:
                    f.append("comp_flag_" + name)
            if tr and any(u[5] for u in comp[t[0]]):
                f.append("transform_under_transform")
    # representation choices of the source (Subset.tla): what a retained glyph is stored as
    rp = c.get("rep")
    if rp:
        f.append("rep_loca_" + rp["loca"].replace("-", "_"))
        f.append("rep_directory_" + rp["dir"])
        for g in order:
            if comp[g]:
                f.append("rep_composite_retained_nc_%d" % rp["ncc"][g])
                if rp["ncc"][g] != -1 and g in req and any(t[0] not in req for t in comp[g]):
                    f.append("rep_composite_nc_not_minus_1_pulls_in_component")
            elif g in c["empty"]:
                if c["instr"][g]:
                    f.append("rep_empty_retained_zero_contours_with_instructions")
                else:
                    f.append("rep_empty_retained_" + rp["empty"].replace("-", "_"))
                    if rp["empty"] == "no-bytes":
                        f.append("rep_loca_equal_consecutive_offsets")
            else:
                f.append("rep_simple_retained_" + rp["simple"].replace("-", "_"))
    if c["nhm"] == 1:
        f.append("numberOfHMetrics_is_1")
    if any(g >= c["nhm"] for g in order):
        f.append("old_id_past_numberOfHMetrics")
    if c["nhm"] == n:
        f.append("all_long_metrics")
    if any(g in c["empty"] for g in order):
        f.append("empty_glyph_retained")
    if any(t[0] in c["empty"] for g in order for t in comp[g]):
        f.append("empty_glyph_as_component")
    if comp[0]:
        f.append("notdef_is_composite")
    if order != sorted(order):
        f.append("order_not_ascending")
    if any(k != order[k] for g in range(len(order)) for k in exp["comps"][g]):
        f.append("component_id_changes")
    return f


NEEDED_FEATURES = ["closure_pulls_in_components", "closure_pulls_in_several", "nested_composite", "self_reference",
                   "shared_or_repeated_component", "cyclic_glyph_retained", "old_id_past_numberOfHMetrics",
                   "all_long_metrics", "empty_glyph_retained", "empty_glyph_as_component", "notdef_is_composite",
                   "order_not_ascending", "component_id_changes",
                   # families of component records a retained composite must show (C07-m1 class: whatever the
                   # subsetter re-serialises of a composite)
                   "composite_with_instructions", "comp_tr_none", "comp_tr_scale", "comp_tr_xy_scale", "comp_tr_two_by_two",
                   "comp_tr_two_by_two_asymmetric", "comp_tr_negative_value", "comp_tr_extreme_value", "comp_args_words",
                   "comp_args_bytes", "comp_args_negative_offset", "comp_args_int8_boundary", "comp_args_just_beyond_int8",
                   "comp_args_words_where_bytes_would_do", "comp_args_int16_extreme", "comp_args_point_numbers",
                   "comp_flag_round_xy_to_grid", "comp_flag_use_my_metrics", "comp_flag_overlap_compound",
                   "comp_flag_scaled_component_offset", "comp_flag_unscaled_component_offset", "transform_under_transform",
                   # representation variants of the source (C07-r2m3 class: whatever the subsetter decides from the bytes)
                   "rep_composite_retained_nc_-1", "rep_composite_retained_nc_-2", "rep_composite_retained_nc_-32768",
                   "rep_composite_nc_not_minus_1_pulls_in_component",
                   "rep_loca_short", "rep_loca_long", "rep_loca_long_unpadded", "rep_loca_long_gaps", "rep_loca_equal_consecutive_offsets",
                   "rep_empty_retained_no_bytes", "rep_empty_retained_zero_contours", "rep_empty_retained_zero_contours_with_instructions",
                   "rep_simple_retained_short_vectors", "rep_simple_retained_words_repeat", "rep_simple_retained_overlap_bit",
                   "rep_directory_sorted", "rep_directory_unsorted", "numberOfHMetrics_is_1"]

# size boundaries of what the subsetters write (c07_subset/sizes.rs): the lists are chosen from the SOURCE's lengths and
# tallied when the call is made (harness inputs).  size: = the rebuilt INDEX / table holds exactly that many bytes;
# ladder: = a rung of a ladder of predicted sizes stepping by one byte through a window around the boundary.
TARGETS = (254, 255, 256, 65534, 65535, 65536)
SMALL = (254, 255, 256)


def _size_keys(quick):
    k = []
    for kind, idxs in (("cff", ("charstrings", "gsubrs", "lsubrs")), ("cid", ("charstrings", "gsubrs", "lsubrs-fd0", "lsubrs-fd1"))):
        k += ["size:%s:%d|%s|%s" % (i, t, kind, api) for i in idxs for t in TARGETS for api in ("subset", "prince")]
        # repository fonts (Klei, SourceCodePro: name-keyed; NotoSansJP: CID-keyed): a solver over their charstring lengths
        k += ["size:repo-charstrings:%d|%s|subset" % (t, kind) for t in TARGETS]
        k += ["size:repo-charstrings:%d|%s|prince" % (t, kind) for t in (254, 255, 256, 65535)]
    k += ["size:name:%d|cff|%s" % (t, api) for t in SMALL for api in ("subset", "prince")]
    k += ["size:string:%d|cff|%s" % (t, api) for t in TARGETS for api in ("subset", "prince")]
    k += ["size:string+cid:%d|cff|%s" % (t, api) for t in TARGETS for api in ("subset", "prince")]
    k += ["size:cff2-name:%d|cff2|%s" % (t, api) for t in SMALL for api in ("subset", "prince")]
    k += ["ladder:cff2-charstrings:%d:predicted=%d|cff2|%s" % (t, t + d, api) for t in TARGETS
          for d in (range(-6, 7) if t < 1000 else range(-3, 4)) for api in ("subset", "prince")]
    k += ["ladder:top-%s:predicted=%d|%s|subset" % (kind, p, kind) for kind in ("cff", "cid") for p in range(238, 273)]
    k += ["ladder:fdarray:predicted=%d|cid|subset" % p for p in range(228, 279)]
    k += ["ladder:cff2-string:copyright=%d|cff2|subset" % c for c in range(150, 246)]
    k += ["size:glyf-short:131070|glyf|subset", "size:glyf-short:131070|glyf|prince"]
    k += ["size:glyf-long:%d|glyf|subset" % t for t in range(131069, 131074)]
    # glyph counts: both sides of the Type 1 -> CID threshold, ids up to 65534
    k += ["count:%d|%s|%s" % (n, kind, api) for n in (255, 256, 257) for kind in ("cff", "cid", "cff2") for api in ("subset", "prince")]
    k += ["count:glyf:ids-up-to-65534|glyf|subset", "count:cid:ids-up-to-65534|cid|subset"]
    if not quick:
        k += ["count:glyf:65535-glyphs-retained|glyf|subset", "count:cid:65535-glyphs-retained|cid|subset"]
    # representation variants of CFF-family and glyf sources
    k += ["rep:source:cff:charset-format-%d" % i for i in (0, 1, 2)] + ["rep:source:cid:charset-format-%d" % i for i in (0, 1, 2)]
    k += ["rep:source:cid:fdselect-format-0", "rep:source:cid:fdselect-format-3", "rep:source:glyf:short-loca-ends-at-131070",
          "rep:source:glyf:long-loca-odd-offsets", "rep:source:glyf:65535-glyphs", "rep:source:cid:65535-glyphs",
          "rep:repo-glyf:nc=-2,long-unpadded,unsorted-directory", "rep:repo-glyf:nc=-32768,loca-as-source,sorted-directory",
          "rep:repo-glyf:composites-requested:nc=-2", "rep:repo-glyf:composites-requested:nc=-32768"]
    return k


# what the independent readers measured in the OUTPUT (decided last: a broken tree may fail to produce them, which then
# shows as violations): every rebuilt INDEX really sat on every boundary
def _measured_keys():
    k = []
    for kind, idxs in (("cff", ("charstrings", "gsubrs", "lsubrs", "string")), ("cid", ("charstrings", "gsubrs", "lsubrs")), ("cff2", ("charstrings",))):
        k += ["measured:%s:%s:%d" % (kind, i, t) for i in idxs for t in TARGETS]
    k += ["measured:%s:%s:%d" % (kind, i, t) for t in SMALL for kind, i in
          (("cff", "name"), ("cff", "top"), ("cid", "top"), ("cid", "fdarray"), ("cff2", "name"), ("cff2", "string"))]
    return k


def _measured_glyf_missing(tally):
    """glyf outputs around the short-loca limit: padding and the loca format of the output are the implementation's choice,
    so no exact length is demanded - only that output tables on both sides of 131070 bytes were seen."""
    lens = sorted(int(k.split(":")[2]) for k in tally if k.startswith("measured:glyf:") and k.split(":")[2].isdigit())
    out = []
    if not any(n <= 131070 for n in lens):
        out.append("recording:measured:glyf:an output glyf table of at most 131070 bytes next to the limit")
    if not any(n > 131070 for n in lens):
        out.append("recording:measured:glyf:an output glyf table of more than 131070 bytes")
    return out


def _container(case):
    parts = case.split("|")
    return parts[1] if len(parts) > 1 else "gen"


def _api(case):
    parts = case.split("|")
    return parts[2].split(":")[0] if len(parts) > 2 else "subset"


def _class(m):
    cls = "+".join(sorted(m["class"]))
    if "accented" in m.get("ctx", ""):
        # an accented glyph (seac) that does not draw what it drew in the source: lost or different is one class - which
        # of the two depends on what the wrongly resolved name happens to hit
        return "+".join(sorted({"outline" if c == "outline-lost" else c for c in m["class"]}))
    if "panic" in m["class"]:
        cls = "panic:" + m.get("err", "").replace("Panic:", "")
    elif "outline-lost" in m["class"]:
        # why the output glyph has no outline any more (error class of allsorts' visitor / reader)
        cls += ":" + m.get("err", "").replace(" ", "_")[:60]
    return cls


def _keys_trace(bad):
    """Stable keys: event kind | font kind | what differs | container | entry point. A difference that also shows
    on the plain OpenType source is not specific to a container: all its occurrences share the key of `otf`."""
    groups = {}
    for m in bad:
        groups.setdefault((m["ev"], m["kind"], _class(m), _api(m["case"])), set()).add(_container(m["case"]))
    out = []
    for m in bad:
        g = (m["ev"], m["kind"], _class(m), _api(m["case"]))
        cont = "otf" if "otf" in groups[g] else _container(m["case"])
        key = "%s|%s|%s|%s|%s" % (g[0], g[1], g[2], cont, g[3])
        # what the glyph is (an accented glyph; a source without charset operator; a list that is converted to CID): part of
        # what fails, so that one defect of accented glyphs does not hide another
        out.append(key + ("|" + m["ctx"] if m.get("ctx") else ""))
    return out


def _generate_and_replay(ctx, binp, cfg, every, idx, features, samples):
    cases_path = ctx.path("cases%d.ndjson" % idx)
    n_cases = [0]
    with open(cases_path, "w") as fc:
        def sink(tag, payload):
            if tag != "CASE":
                return
            fc.write(payload + "\n")
            n_cases[0] += 1
            # vacuity counters on every 7th case keep the driver fast; every case is replayed
            if n_cases[0] % 7 == 0 or n_cases[0] < 2000:
                c = json.loads(payload)
                for f in set(_case_features(c)):
                    features[f] = features.get(f, 0) + 1
                if len(samples) < 1 and c["exp"]["n"] > len(c["req"]) + 1:
                    samples.append(c)
        mc = vlib.run_tlc(ctx, "MC_Subset", cfg, "mc%d" % idx, workers=4, timeout=1500 if ctx.quick else 3000, sink=sink)
    ctx.note("MC_Subset/%s: %d states generated, %d distinct, %d cases, design invariants hold (%.1fs)" %
             (cfg, mc.generated, mc.distinct, n_cases[0], mc.wall))
    if n_cases[0] == 0:
        raise vlib.ToolError("no CASE lines generated by %s" % cfg)
    mism_path = ctx.path("gen_mismatches%d.ndjson" % idx)
    gen_trace = ctx.path("gen_trace%d.ndjson" % idx)
    rep = vlib.run_harness(binp, ["replay", cases_path, mism_path, gen_trace, every], timeout=2400)
    ctx.note("replay %s: %s" % (cfg, json.dumps({k: v for k, v in rep.items() if k != "tally"})))
    if rep.get("cases") != n_cases[0]:
        raise vlib.ToolError("replay consumed %s cases, TLC printed %d" % (rep.get("cases"), n_cases[0]))
    return mc, n_cases[0], rep, cases_path, mism_path, gen_trace


def _generate_and_replay_cff(ctx, binp, cov):
    """MC_SubsetCff: cases -> replay-cff. Returns (TlcResult, number of cases, harness summary, mismatches)."""
    cfg = CFF_CONFIGS[ctx.tier]
    cases_path = ctx.path("cff_cases.ndjson")
    n_cases = [0]
    tlc_feat = {}
    sample = []
    with open(cases_path, "w") as fc:
        def sink(tag, payload):
            if tag != "CASE":
                return
            fc.write(payload + "\n")
            n_cases[0] += 1
            if n_cases[0] % 5 == 0 or n_cases[0] < 500:
                c = json.loads(payload)
                acc = [i for i, g in enumerate(c["req"]) if c["glyphs"][g][0] == 1]
                for i in acc:
                    k = "closed" if c["closed"][i] else "open"
                    tlc_feat["accented_requested_" + k] = tlc_feat.get("accented_requested_" + k, 0) + 1
                    if c["exp"]["glyphs"][i][0] == [[-1, 0, 0]]:
                        tlc_feat["accented_prescribed_without_outline"] = tlc_feat.get("accented_prescribed_without_outline", 0) + 1
                    elif len(c["exp"]["glyphs"][i][0]) >= 2:
                        tlc_feat["accented_prescribed_base_and_accent"] = tlc_feat.get("accented_prescribed_base_and_accent", 0) + 1
                        if not sample and c["closed"][i] and c["names"] != sorted(c["names"]):
                            sample.append(c)
        mc = vlib.run_tlc(ctx, "MC_SubsetCff", cfg, "mccff", workers=4, timeout=1500 if ctx.quick else 3000, sink=sink)
    ctx.note("MC_SubsetCff/%s: %d states generated, %d distinct, %d cases, design invariants hold (%.1fs)" %
             (cfg, mc.generated, mc.distinct, n_cases[0], mc.wall))
    if n_cases[0] == 0:
        raise vlib.ToolError("no CASE lines generated by %s" % cfg)
    for k in ("accented_requested_closed", "accented_requested_open", "accented_prescribed_without_outline", "accented_prescribed_base_and_accent"):
        if not tlc_feat.get(k):
            raise vlib.ToolError("MC_SubsetCff generator is vacuous for %s" % k)
    mism_path = ctx.path("cff_mismatches.ndjson")
    rep = vlib.run_harness(binp, ["replay-cff", cases_path, mism_path], timeout=2400)
    ctx.note("replay-cff %s: %s" % (cfg, json.dumps(rep)))
    if rep.get("cases") != n_cases[0]:
        raise vlib.ToolError("replay-cff consumed %s cases, TLC printed %d" % (rep.get("cases"), n_cases[0]))
    missing = [k for k in CFF_CASE_FEATURES if not rep.get("features", {}).get(k)]
    if missing:
        raise vlib.ToolError("name-keyed CFF cases are vacuous for: %s" % missing)
    mism = vlib.read_ndjson(mism_path)
    for m in mism:
        m["cfg"] = cfg
    cov.update({"cff_cases": n_cases[0], "cff_states": mc.distinct, "cff_replay": rep, "cff_case_features_sampled": tlc_feat,
                "cff_sample": sample[:1]})
    return mc, n_cases[0], rep, mism, cases_path


def _cff_violations(mism, per_key):
    out = []
    for m in mism:
        key = "gencff|%s|%s" % (m["api"], m["class"]) + ("|" + m["ctx"] if m.get("ctx") else "")
        per_key[key] = per_key.get(key, 0) + 1
        if per_key[key] > 1:
            continue
        what = "generated name-keyed CFF case %s #%d through %s: %s (%s): input %s: prescribed %s, observed %s" % (
            m["cfg"], m["case"], m["api"], m["class"], m.get("ctx", ""), vlib.short(m["input"], 400), vlib.short(m["exp"], 200), vlib.short(m["obs"], 300))
        out.append(Violation(key, what, {"source": "generated-cff", "mismatch": m}))
    return out


def _generate_and_replay_cid(ctx, binp, cov):
    """MC_SubsetCid: cases -> replay-cid. Returns (TlcResult, number of cases, harness summary, mismatches, cases path)."""
    cfg = CID_CONFIGS[ctx.tier]
    cases_path = ctx.path("cid_cases.ndjson")
    n_cases = [0]
    sample = []
    with open(cases_path, "w") as fc:
        def sink(tag, payload):
            if tag != "CASE":
                return
            fc.write(payload + "\n")
            n_cases[0] += 1
            if not sample and n_cases[0] > 1000:
                c = json.loads(payload)
                if len(c["req"]) >= 3 and 0 in c["kept"]["l"] and any(len(g[0]) >= 4 for g in c["exp"]["glyphs"]):
                    sample.append(c)
        mc = vlib.run_tlc(ctx, "MC_SubsetCid", cfg, "mccid", workers=4, timeout=1500 if ctx.quick else 3000, sink=sink)
    ctx.note("MC_SubsetCid/%s: %d states generated, %d distinct, %d cases, design invariants hold (%.1fs)" %
             (cfg, mc.generated, mc.distinct, n_cases[0], mc.wall))
    if n_cases[0] == 0:
        raise vlib.ToolError("no CASE lines generated by %s" % cfg)
    mism_path = ctx.path("cid_mismatches.ndjson")
    rep = vlib.run_harness(binp, ["replay-cid", cases_path, mism_path], timeout=2400)
    ctx.note("replay-cid %s: %s" % (cfg, json.dumps(rep)))
    if rep.get("cases") != n_cases[0]:
        raise vlib.ToolError("replay-cid consumed %s cases, TLC printed %d" % (rep.get("cases"), n_cases[0]))
    missing = [k for k in CID_CASE_FEATURES if not rep.get("features", {}).get(k)]
    if not ctx.quick and not rep.get("features", {}).get("font-dicts-of-requested-glyphs:3"):
        missing.append("font-dicts-of-requested-glyphs:3")
    if missing:
        raise vlib.ToolError("CID-keyed / subroutine cases are vacuous for: %s" % missing)
    mism = vlib.read_ndjson(mism_path)
    for m in mism:
        m["cfg"] = cfg
    cov.update({"cid_cases": n_cases[0], "cid_states": mc.distinct, "cid_replay": rep, "cid_sample": sample[:1]})
    return mc, n_cases[0], rep, mism, cases_path


def _cid_violations(mism, per_key):
    out = []
    for m in mism:
        key = "gencid|%s|%s|%s" % (m["kind"], m["api"], m["class"])
        per_key[key] = per_key.get(key, 0) + 1
        if per_key[key] > 1:
            continue
        what = "generated %s case %s #%d (subroutines / Font DICTs) through %s: %s: input %s: prescribed %s, observed %s" % (
            m["kind"], m["cfg"], m["case"], m["api"], m["class"], vlib.short(m["input"], 600), vlib.short(m["exp"], 200), vlib.short(m["obs"], 300))
        out.append(Violation(key, what, {"source": "generated-cid", "mismatch": m}))
    return out


def _selfcheck_replay_cid(ctx, binp, cases_path, reported, families=3):
    """Corrupted prescriptions of CID-keyed / subroutine cases must be reported, the untouched case not."""
    goods = []
    bad_cases = {m["case"] for m in reported}
    with open(cases_path) as f:
        for n, ln in enumerate(f, 1):
            if n % 997 != 5 or n in bad_cases:
                continue
            c = json.loads(ln)
            if len(c["req"]) >= 2 and len(c["exp"]["glyphs"][-1][0]) >= 2:
                goods.append(c)
                if len(goods) >= families:
                    break
    if not goods:
        raise vlib.ToolError("self-check (replay-cid): no case whose last requested glyph draws two shapes")
    kinds = ("token", "dropped", "swapped", "lost", "advance", "lsb", "count")
    items = []
    for good in goods:
        items.append(good)
        for what in kinds:
            c = json.loads(json.dumps(good))
            e = c["exp"]["glyphs"][-1]
            if what == "token":
                e[0][-1] += 1
            elif what == "dropped":
                e[0] = e[0][:-1]
            elif what == "swapped":
                e[0] = [e[0][1], e[0][0]] + e[0][2:]
            elif what == "lost":
                e[0] = [-1]
            elif what == "advance":
                e[1] += 7777
            elif what == "lsb":
                e[2] -= 7777
            else:
                c["exp"]["n"] += 1
            items.append(c)
    p = ctx.path("selfcheck_cid_cases.ndjson")
    vlib.write_ndjson(p, items)
    vlib.run_harness(binp, ["replay-cid", p, ctx.path("selfcheck_cid_mism.ndjson")])
    got = {}
    for m in vlib.read_ndjson(ctx.path("selfcheck_cid_mism.ndjson")):
        got.setdefault(m["case"], set()).add(m["api"])
    per = 1 + len(kinds)
    valid = 0
    for k in range(len(goods)):
        base = k * per + 1
        if base in got:
            continue                      # the untouched case does not conform on this tree: proves nothing
        valid += 1
        missing = [kinds[j] for j in range(len(kinds)) if "subset" not in got.get(base + 1 + j, set())]
        missing += [kinds[j] + "(prince)" for j in range(len(kinds)) if kinds[j] not in ("advance", "lsb") and "prince" not in got.get(base + 1 + j, set())]
        if missing:
            raise vlib.ToolError("binding self-check (replay-cid) failed: corrupted prescriptions %s not reported" % missing)
    return valid, len(goods), len(kinds)


def _cid_stage(ctx, binp, cov, box):
    """The CFF stages (MC_SubsetCid, then MC_SubsetCff) run beside the glyf stage (own TLC runs, own harness processes);
    exceptions are handed to the main thread."""
    try:
        mc, n, rep, mism, cases = _generate_and_replay_cid(ctx, binp, cov)
        box["result"] = (mc, n, rep, mism, cases)
        box["self"] = _selfcheck_replay_cid(ctx, binp, cases, mism)
    except BaseException as e:          # re-raised by the main thread
        box["error"] = e
    try:
        r = _generate_and_replay_cff(ctx, binp, cov)
        box["cff"] = r
        box["cff_self"] = _selfcheck_replay_cff(ctx, binp, r[4], r[3])
    except BaseException as e:
        box["cff_error"] = e


def _selfcheck_replay_cff(ctx, binp, cases_path, reported, families=3):
    """Corrupted prescriptions of name-keyed CFF cases must be reported, the untouched case not."""
    goods = []
    bad_cases = {m["case"] for m in reported}
    with open(cases_path) as f:
        for n, ln in enumerate(f, 1):
            c = json.loads(ln)
            acc = [i for i, g in enumerate(c["req"]) if c["glyphs"][g][0] == 1 and c["closed"][i] and len(c["exp"]["glyphs"][i][0]) >= 2]
            if acc and n not in bad_cases and all(g["names"] != c["names"] for g in goods) and c["rep"]["charset"] != "iso-omitted":
                goods.append(c)
                if len(goods) >= families:
                    break
    if not goods:
        raise vlib.ToolError("self-check (replay-cff): no case with a closed accented glyph")
    kinds = ("token", "shift", "lost", "advance", "lsb", "count")
    items = []
    for good in goods:
        items.append(good)
        i = next(i for i, g in enumerate(good["req"]) if good["glyphs"][g][0] == 1 and good["closed"][i] and len(good["exp"]["glyphs"][i][0]) >= 2)
        for what in kinds:
            c = json.loads(json.dumps(good))
            e = c["exp"]["glyphs"][i]
            if what == "token":
                e[0][0][0] = 77
            elif what == "shift":
                e[0][-1][1] += 1
            elif what == "lost":
                e[0] = [[-1, 0, 0]]
            elif what == "advance":
                e[1] += 7777
            elif what == "lsb":
                e[2] -= 7777
            else:
                c["exp"]["n"] += 1
            items.append(c)
    p = ctx.path("selfcheck_cff_cases.ndjson")
    vlib.write_ndjson(p, items)
    vlib.run_harness(binp, ["replay-cff", p, ctx.path("selfcheck_cff_mism.ndjson")])
    got = {}
    for m in vlib.read_ndjson(ctx.path("selfcheck_cff_mism.ndjson")):
        got.setdefault(m["case"], set()).add(m["api"])
    per = 1 + len(kinds)
    valid = 0
    for k in range(len(goods)):
        base = k * per + 1
        if base in got:
            continue                      # the untouched case does not conform on this tree: proves nothing
        valid += 1
        missing = [kinds[j] for j in range(len(kinds)) if "subset" not in got.get(base + 1 + j, set())]
        missing += [kinds[j] + "(prince)" for j in range(len(kinds)) if kinds[j] in ("token", "shift", "lost", "count") and "prince" not in got.get(base + 1 + j, set())]
        if missing:
            raise vlib.ToolError("binding self-check (replay-cff) failed: corrupted prescriptions %s not reported" % missing)
    return valid, len(goods), len(kinds)


def _selfcheck_replay(ctx, binp, cases_path, families=3):
    """Binding self-check of the spec -> impl direction: a case whose prescription is corrupted must be reported,
    the untouched case not. Several families: on a broken tree an untouched case may itself be reported."""
    goods = []
    with open(cases_path) as f:
        for ln in f:
            c = json.loads(ln)
            # the first requested glyph after .notdef... some requested glyph is a composite with a transform and instructions
            # (a source with an unsorted table directory may be refused by a conformant implementation: not for the self-check)
            if c["exp"]["n"] > len(c["req"]) and c["nhm"] < c["n"] and all(g["comp"] != c["comp"] for g in goods) \
                    and c.get("rep", {}).get("dir", "sorted") == "sorted" \
                    and any(e[3][0] and e[3][1] and any(p[3] for p in e[3][0]) for e in c["exp"]["head"]):
                goods.append(c)
                if len(goods) >= families:
                    break
    if not goods:
        raise vlib.ToolError("self-check: no case with pulled-in components")
    kinds = ("lsb", "advance", "outline", "count", "tail", "transform", "argument", "flags", "instructions", "path")
    items = []
    for good in goods:
        items.append(good)
        for what in kinds:
            c = json.loads(json.dumps(good))
            if what == "lsb":
                c["exp"]["head"][-1][2] += 1
            elif what == "advance":
                c["exp"]["head"][0][1] += 1
            elif what == "outline":
                c["exp"]["head"][0][0] = [[1, [[2, 5, 5, []]]]]
            elif what == "count":
                c["exp"]["n"] += 1
            elif what == "tail":
                c["exp"]["tail"][0][0] = [[0, [[2, 1, 1, []]]]]
            else:
                # a requested composite with a transform and instructions: one field of one component record
                e = next(e for e in c["exp"]["head"] if e[3][0] and e[3][1] and any(p[3] for p in e[3][0]))
                pl = next(p for p in e[3][0] if p[3])
                if what == "transform":
                    if len(pl[3]) == 4:
                        pl[3][1], pl[3][2] = pl[3][2], pl[3][1] + (1 if pl[3][1] == pl[3][2] else 0)   # transposed
                    else:
                        pl[3][-1] += 1
                elif what == "argument":
                    pl[2] += 1
                elif what == "flags":
                    pl[0] ^= 0x200
                elif what == "instructions":
                    e[3][1] = e[3][1][:-1]
                else:
                    # the flattened outline only: the same placement one level down the path
                    e = next((e for e in c["exp"]["head"] + c["exp"]["tail"] if e[0] and e[0][0][1] and e[0][0][1][-1][3]), None)
                    if e is None:
                        e = next(e for e in c["exp"]["head"] + c["exp"]["tail"] if e[0] and e[0][0][1])
                        e[0][0][1][-1][1] += 1
                    else:
                        e[0][0][1][-1][3][0] += 1
            items.append(c)
    p = ctx.path("selfcheck_cases.ndjson")
    vlib.write_ndjson(p, items)
    vlib.run_harness(binp, ["replay", p, ctx.path("selfcheck_mism.ndjson"), ctx.path("selfcheck_trace.ndjson"), 0])
    got = {m["case"] for m in vlib.read_ndjson(ctx.path("selfcheck_mism.ndjson"))}
    per = 1 + len(kinds)
    valid = 0
    for k in range(len(goods)):
        base = k * per + 1
        if base in got:
            continue                      # the untouched case does not conform on this tree: proves nothing
        valid += 1
        missing = [kinds[j] for j in range(len(kinds)) if base + 1 + j not in got]
        if missing:
            raise vlib.ToolError("binding self-check (replay) failed: corrupted prescriptions %s not reported" % missing)
    return valid, len(goods), len(kinds)


def _plant_trace(rec_trace, families=4):
    """Corrupted copies of recorded events; each must be rejected with the class named, the untouched copy and an
    alternative closure order accepted. Several families (from different cases), because on a broken tree the
    recorded events themselves may not conform: a family whose untouched copy is rejected proves nothing."""
    glyphs, subs, conv = [], [], []
    with open(rec_trace) as f:
        last_sub = None
        for ln in f:
            e = json.loads(ln)
            if e["ev"] == "Subset":
                last_sub = e
                if len(subs) < families and e["o"]["ok"] and e["a"]["kind"] == "glyf" and e["o"]["n_out"] >= len(e["a"]["ids"]) + 2 \
                        and len(e["a"]["ids"]) >= 2 and all(s["case"].split("|")[0] != e["case"].split("|")[0] for s in subs):
                    subs.append(e)
            elif len(glyphs) < families and e["a"]["kind"] == "glyf" and e["a"]["metrics"] and e["o"]["src"]["ok"] and e["o"]["out"]["ok"] \
                    and len(e["o"]["out"]["cmds"]) > 3 and e["o"]["isrc"]["kind"] == "simple" and e["o"]["iout"]["kind"] == "simple" \
                    and all(g[1]["case"].split("|")[0] != e["case"].split("|")[0] for g in glyphs):
                glyphs.append((last_sub, e))
            elif len(conv) < families and e["a"]["kind"] == "cff2" and e["o"]["src"]["ok"] and e["o"]["out"]["ok"] \
                    and any(c[0] in (2, 3, 4) for c in e["o"]["out"]["cmds"]) \
                    and all(g[1]["case"].split("|")[0] != e["case"].split("|")[0] for g in conv):
                # a glyph that went through the CFF2 -> CFF charstring conversion
                conv.append((last_sub, e))
            if len(glyphs) >= families and len(subs) >= families and len(conv) >= families:
                break
    if not glyphs or not subs:
        raise vlib.ToolError("self-check: no suitable recorded events (glyph=%d subset=%d)" % (len(glyphs), len(subs)))
    planted, fams = [], []
    base_i = 10 ** 8

    def add(fam, tag, sub_ev, ev, cls):
        k = len(planted)
        s = json.loads(json.dumps(sub_ev))
        s["case"], s["i"] = tag, base_i + k
        planted.append(s)
        if ev is not None:
            g = json.loads(json.dumps(ev))
            g["case"], g["i"] = tag, base_i + k + 1
            planted.append(g)
        fam["want"][tag] = cls

    def cp(x):
        return json.loads(json.dumps(x))

    for n, (gs, ge) in enumerate(glyphs):
        fam = {"type": "glyph", "base": "selftest-g%d-base" % n, "want": {}}
        add(fam, fam["base"], gs, ge, None)
        e = cp(ge); e["o"]["out"]["cmds"][1][1] += 1
        add(fam, "selftest-g%d-outline" % n, gs, e, "outline")
        e = cp(ge); e["o"]["adv"][1] += 1
        add(fam, "selftest-g%d-advance" % n, gs, e, "advance")
        e = cp(ge); e["o"]["lsb"][1] -= 1
        add(fam, "selftest-g%d-lsb" % n, gs, e, "lsb")
        e = cp(ge); e["o"]["iout"]["pts"][0][0] += 1
        add(fam, "selftest-g%d-record" % n, gs, e, "record")
        e = cp(ge); e["o"]["out"] = {"ok": False, "err": "planted", "cmds": []}
        add(fam, "selftest-g%d-outline-lost" % n, gs, e, "outline-lost")
        fams.append(fam)
    for n, (gs, ge) in enumerate(conv):
        fam = {"type": "converted-glyph", "base": "selftest-c%d-base" % n, "want": {}}
        add(fam, fam["base"], gs, ge, None)
        k = next(i for i, c in enumerate(ge["o"]["out"]["cmds"]) if c[0] in (2, 3, 4))     # a line or a curve
        e = cp(ge); e["o"]["out"]["cmds"][k][-1] += 1
        add(fam, "selftest-c%d-outline" % n, gs, e, "outline")
        e = cp(ge); del e["o"]["out"]["cmds"][k]
        add(fam, "selftest-c%d-outline-shorter" % n, gs, e, "outline")
        e = cp(ge); e["o"]["out"] = {"ok": False, "err": "planted", "cmds": []}
        add(fam, "selftest-c%d-outline-lost" % n, gs, e, "outline-lost")
        fams.append(fam)
    for n, sub in enumerate(subs):
        fam = {"type": "subset", "base": "selftest-s%d-base" % n, "want": {}}
        add(fam, fam["base"], sub, None, None)
        k = len(sub["a"]["ids"])
        s = cp(sub); s["o"]["olds"][k], s["o"]["olds"][k + 1] = s["o"]["olds"][k + 1], s["o"]["olds"][k]
        add(fam, "selftest-s%d-component-ids" % n, s, None, "component-ids")
        s = cp(sub); s["o"]["olds"][1], s["o"]["olds"][0] = s["o"]["olds"][0], s["o"]["olds"][1]
        add(fam, "selftest-s%d-requested-order" % n, s, None, "requested-order")
        s = cp(sub); s["o"]["olds"] = s["o"]["olds"][:-1]; s["o"]["src_comps"] = s["o"]["src_comps"][:-1]
        s["o"]["out_comps"] = s["o"]["out_comps"][:-1]; s["o"]["n_out"] -= 1
        add(fam, "selftest-s%d-closure" % n, s, None, "component-ids")
        s = cp(sub); s["o"]["ok"] = False; s["o"]["panic"] = True; s["o"]["err"] = "Panic:planted"
        s["o"]["n_out"] = 0; s["o"]["olds"] = []; s["o"]["src_comps"] = []; s["o"]["out_comps"] = []
        add(fam, "selftest-s%d-panic" % n, s, None, "panic")
        # accepted: the pulled-in components in another order, consistently renumbered (Dev_ClosureOrder)
        s = cp(sub)
        for fld in ("olds", "src_comps", "out_comps"):
            s["o"][fld][k], s["o"][fld][k + 1] = s["o"][fld][k + 1], s["o"][fld][k]
        s["o"]["out_comps"] = [[(k + 1 if c == k else k if c == k + 1 else c) for c in cs] for cs in s["o"]["out_comps"]]
        add(fam, "selftest-s%d-other-closure-order-accepted" % n, s, None, None)
        fams.append(fam)
    return planted, fams


def _eval_selfcheck(fams, mism, have_violations):
    seen = {}
    for m in mism:
        if m["case"].startswith("selftest-"):
            seen.setdefault(m["case"], set()).update(m["class"])
    verdict = {}
    for typ in ("glyph", "subset", "converted-glyph"):
        if not any(f["type"] == typ for f in fams):
            raise vlib.ToolError("binding self-check: no recorded event to build a %s family from" % typ)
        valid = [f for f in fams if f["type"] == typ and f["base"] not in seen]
        if not valid:
            if have_violations:
                verdict[typ] = "inconclusive: every recorded base event is itself rejected (see the violations)"
                continue
            raise vlib.ToolError("binding self-check: no %s family has an accepted base event, yet nothing is reported" % typ)
        for f in valid:
            for tag, cls in f["want"].items():
                if cls is None and tag in seen:
                    raise vlib.ToolError("binding self-check failed: %s rejected as %s" % (tag, sorted(seen[tag])))
                if cls is not None and cls not in seen.get(tag, set()):
                    raise vlib.ToolError("binding self-check failed: %s not rejected as %s (got %s)" % (tag, cls, sorted(seen.get(tag, []))))
        verdict[typ] = "%d of %d families valid: every corruption rejected with its class, untouched copies accepted" % (
            len(valid), len([f for f in fams if f["type"] == typ]))
    return verdict


def run(ctx):
    """Violations take precedence over tool problems: whatever was found before a later stage failed is reported
    (exit 1); a tool error (exit 2) is raised only when there is nothing new to report."""
    found, cov = [], {}
    try:
        _run(ctx, found, cov)
    except SystemExit:
        raise
    except Exception as e:        # ToolError, or a driver exception on output it did not expect
        known = vlib.load_known(ctx.prop)
        if not any(v.key not in known for v in found):
            raise
        ctx.note("a later stage failed after violations had been found; reporting the violations. Tool problem: %s" % str(e)[:1500])
        for k in ("states", "transitions", "traces_validated_against_impl"):
            cov.setdefault(k, 0)
        cov.setdefault("samples", [])
        cov["incomplete_run"] = str(e)[:500]
        vlib.finish(ctx, LEVEL, cov, found, ASSUMPTIONS)


def _gen_violations(gen_mism, per_key):
    out = []
    for m in gen_mism:
        key = "gen|%s" % m["class"]
        per_key[key] = per_key.get(key, 0) + 1
        if per_key[key] > 1:
            continue
        what = "generated case %s #%d: %s: input %s: prescribed %s, observed %s" % (
            m["cfg"], m["case"], m["class"], vlib.short(m["input"], 200), vlib.short(m["exp"], 200), vlib.short(m["obs"], 200))
        out.append(Violation(key, what, {"source": "generated", "mismatch": m}))
    return out


def _run(ctx, found, cov):
    binp = vlib.build_harness("c07_subset")
    # spec -> impl for CFF sources (MC_SubsetCid, MC_SubsetCff): beside the glyf stage, joined before the recording
    cid_box = {}
    cid_thread = threading.Thread(target=_cid_stage, args=(ctx, binp, cov, cid_box))
    cid_thread.start()
    try:
        _run_rest(ctx, found, cov, binp, cid_thread, cid_box)
    finally:
        cid_thread.join()


def _run_rest(ctx, found, cov, binp, cid_thread, cid_box):
    features, samples = {}, []
    gen_traces, gen_mism = [], []
    states = generated = total_cases = 0
    replays = []
    first_cases = None
    for idx, (cfg, every) in enumerate(CONFIGS[ctx.tier]):
        mc, n, rep, cases_path, mism_path, gen_trace = _generate_and_replay(ctx, binp, cfg, every, idx, features, samples)
        states += mc.distinct
        generated += mc.generated
        total_cases += n
        replays.append(rep)
        gen_traces.append(gen_trace)
        for m in vlib.read_ndjson(mism_path):
            m["cfg"] = cfg
            gen_mism.append(m)
        # what replay found is reported even if a later stage (recording, judge, guards) fails
        del found[:]
        found.extend(_gen_violations(gen_mism, {}))
        cov.update({"states": states, "generated_cases": total_cases})
        if first_cases is None:
            first_cases = cases_path
            replay_self = _selfcheck_replay(ctx, binp, cases_path)
        else:
            os.remove(cases_path)
    missing = [k for k in NEEDED_FEATURES if features.get(k, 0) == 0]
    if missing:
        raise vlib.ToolError("generator is vacuous for: %s" % missing)

    # spec -> impl, name-keyed CFF and subroutines / Font DICTs (ran beside the stage above): what they found is kept before
    # any of their tool problems is raised
    cid_thread.join()
    cff_mism, cid_mism = [], []
    if "cff" in cid_box:
        mc_cff, n_cff, rep_cff, cff_mism, cff_cases = cid_box["cff"]
        states += mc_cff.distinct
        generated += mc_cff.generated
        total_cases += n_cff
        found.extend(_cff_violations(cff_mism, {}))
    if "result" in cid_box:
        mc_cid, n_cid, rep_cid, cid_mism, cid_cases = cid_box["result"]
        states += mc_cid.distinct
        generated += mc_cid.generated
        total_cases += n_cid
        found.extend(_cid_violations(cid_mism, {}))
    for k in ("cff_error", "error"):
        if k in cid_box:
            raise cid_box[k]
    cff_self, cid_self = cid_box["cff_self"], cid_box["self"]
    if cff_self[0] == 0 and not cff_mism:
        raise vlib.ToolError("binding self-check (replay-cff): no untouched case accepted, yet no mismatch reported")
    if cid_self[0] == 0 and not cid_mism:
        raise vlib.ToolError("binding self-check (replay-cid): no untouched case accepted, yet no mismatch reported")

    # impl -> spec
    vacuous = []
    rec_trace = ctx.path("rec_trace.ndjson")
    rec = vlib.run_harness(binp, ["record", ctx.seed, ctx.tier, rec_trace], timeout=2400)
    tally = rec.get("tally", {})
    ctx.note("record: %d events, tally %s" % (rec.get("events", 0), json.dumps(tally)))
    for k in ("fonts:glyf", "fonts:cff", "fonts:cid", "fonts:cff2", "fonts:cff_with_subroutines", "fonts:cid_with_subroutines",
              "rewrapped_woff", "rewrapped_woff2", "type1_converted_to_cid", "pulled_in_components",
              "glyphs_old_id_past_numberOfHMetrics", "ok:glyf:prince", "ok:cff:prince", "fonts:syn-cff2", "fonts:syn-cid") \
            + RECORDED_COMPOSITE_FAMILIES + RECORDED_BOUNDARY_KEYS + tuple(_size_keys(ctx.quick)) + tuple(_cffrep_keys()) + tuple(_measured_keys()):
        if tally.get(k, 0) == 0:
            # decided at the end: on a broken tree (subset calls that panic or fail) a family may be missing BECAUSE of
            # the defect, which is then reported as a violation; without such a violation it is a tool error
            vacuous.append("recording:" + k)

    vacuous += _measured_glyf_missing(tally)

    planted, fams = _plant_trace(rec_trace)
    trace = ctx.path("trace.ndjson")
    n_gen_events = 0
    with open(trace, "w") as out:
        for p in gen_traces:
            with open(p) as f:
                for ln in f:
                    out.write(ln)
                    n_gen_events += 1
        with open(rec_trace) as f:
            for ln in f:
                out.write(ln)
        for x in planted:
            out.write(json.dumps(x, separators=(",", ":")) + "\n")
    stats_list = {"STATS": []}
    total, mism = vlib.judge_trace_parallel(ctx, "Trace_Subset", "Trace_Subset.cfg", trace, "judge", parts=4 if ctx.quick else 6,
                                            timeout=1500, xmx="4g", other_tags=stats_list)
    stats = {}
    for s in stats_list["STATS"]:
        for k, v in s.items():
            stats[k] = stats.get(k, 0) + v
    ctx.note("judge: %d events, %d mismatches, stats %s" % (total, len(mism), json.dumps(stats)))
    expected_events = n_gen_events + rec.get("events", 0) + len(planted)
    if total != expected_events:
        raise vlib.ToolError("judge consumed %d events, expected %d" % (total, expected_events))

    # binding self-check of the judge
    real = [m for m in mism if not m["case"].startswith("selftest-")]
    if replay_self[0] == 0 and not gen_mism:
        raise vlib.ToolError("binding self-check (replay): no untouched case accepted, yet no generated mismatch reported")
    self_verdict = _eval_selfcheck(fams, mism, bool(real) or bool(gen_mism) or bool(cff_mism) or bool(cid_mism))
    ctx.note("binding self-check: %s" % json.dumps(self_verdict))
    for k in ("subsets_ok", "with_pulled_in", "order_as_model", "outlines_nonempty", "metrics_compared", "records_compared",
              "composite_records", "kind_glyf", "kind_cff", "kind_cid", "kind_cff2",
              "comp_scale", "comp_xy_scale", "comp_two_by_two", "comp_two_by_two_asymmetric", "comp_negative_transform",
              "comp_point_args", "composite_with_instructions", "transformed_outlines_compared", "seac_closed_compared"):
        if stats.get(k, 0) == 0:
            vacuous.append("judge:" + k)

    # violations
    per_key = {}
    violations = _gen_violations(gen_mism, per_key) + _cff_violations(cff_mism, per_key) + _cid_violations(cid_mism, per_key)
    bad = [m for m in mism if not m["case"].startswith("selftest-")]
    first = {}
    for m, key in zip(bad, _keys_trace(bad)):
        per_key[key] = per_key.get(key, 0) + 1
        first.setdefault(key, m)
    need = {m["case"]: k for k, m in first.items()}
    events = {}
    if need:
        with open(trace) as f:
            for ln in f:
                e = json.loads(ln)
                if e["case"] in need and (e["ev"] == "Subset" or e["i"] == first[need[e["case"]]]["i"]):
                    events.setdefault(e["case"], []).append(e)
    for key, m in sorted(first.items()):
        if m["ev"] == "Glyph":
            what = "%s: new glyph %d (old %d): %s; advance %s lsb %s (source, output); outline commands %d vs %d, first difference at %d: %s vs %s %s" % (
                m["case"], m["new"], m["old"], "+".join(m["class"]), m["adv"], m["lsb"], m["nsrc"], m["nout"], m["at"],
                vlib.short(m["want"], 120), vlib.short(m["got"], 120), m["err"])
        else:
            what = "%s: %s; %d ids requested, %d glyphs in the output; %s" % (m["case"], "+".join(m["class"]), m["n_ids"], m["n_out"], m["err"])
        violations.append(Violation(key, what, {"source": "recorded", "mismatch": m, "events": events.get(m["case"], [])}))
    for k, n in sorted(per_key.items()):
        ctx.note("mismatch class %s: %d" % (k, n))
    del found[:]
    found.extend(violations)

    if vacuous:
        known = vlib.load_known(ctx.prop)
        fresh = [v.key for v in violations if v.key not in known]
        if not fresh:
            raise vlib.ToolError("vacuous for %s" % ", ".join(vacuous[:8]))
        ctx.note("families not exercised on this tree, with new violations reported (%s): %s" % (", ".join(fresh[:4]), ", ".join(vacuous)))

    coverage = cov
    coverage.update({
        "states": states,
        "transitions": total,
        "traces_validated_against_impl": total_cases + total - len(planted),
        "samples": [samples[0] if samples else None],
        "generated_cases": total_cases,
        "generated_case_features_sampled": features,
        "replay": [{k: v for k, v in r.items() if k != "tally"} for r in replays],
        "recorded": tally,
        "events_judged": total,
        "judge_statistics": stats,
        "mismatch_classes": per_key,
        "families_not_exercised_on_this_tree": vacuous,
        "tlc_states_generated": generated,
        "binding_selfcheck": {"replay": "%d of %d families valid (untouched case accepted), %d corrupted prescriptions each, all reported" % replay_self,
                              "replay_cff": "%d of %d families valid (untouched case accepted), %d corrupted prescriptions each, all reported" % cff_self,
                              "replay_cid": "%d of %d families valid (untouched case accepted), %d corrupted prescriptions each, all reported" % cid_self,
                              "judge": self_verdict, "planted_events": len(planted)},
        "exhaustive": True,
        "explanation": "exhaustive over the bounded models (configs %s, %s, %s); repository fonts: %s" % (
            ", ".join(c for c, _ in CONFIGS[ctx.tier]), CFF_CONFIGS[ctx.tier], CID_CONFIGS[ctx.tier], "seeded sample" if ctx.quick else "all, larger id lists"),
    })
    vlib.finish(ctx, LEVEL, coverage, violations, ASSUMPTIONS)


def replay(ctx, path):
    d = json.load(open(path))["detail"]
    binp = vlib.build_harness("c07_subset")
    if d["source"] == "generated":
        m = d["mismatch"]
        case = dict(m["input"])
        case["exp"] = m["exp"]
        cp = ctx.path("case.ndjson")
        vlib.write_ndjson(cp, [case])
        rep = vlib.run_harness(binp, ["replay", cp, ctx.path("mism.ndjson"), ctx.path("trace.ndjson"), 0])
        mm = vlib.read_ndjson(ctx.path("mism.ndjson"))
        for x in mm:
            print("REPRODUCED class=%s prescribed=%s observed=%s" % (x["class"], vlib.short(x["exp"], 300), vlib.short(x["obs"], 300)))
        if not mm:
            print("not reproduced: the case now conforms (%s)" % json.dumps({k: v for k, v in rep.items() if k != "tally"}))
        return 1 if mm else 0
    if d["source"] == "generated-cff":
        m = d["mismatch"]
        case = dict(m["input"])
        case["exp"] = m["exp"]
        cp = ctx.path("cff_case.ndjson")
        vlib.write_ndjson(cp, [case])
        vlib.run_harness(binp, ["replay-cff", cp, ctx.path("cff_mism.ndjson")])
        mm = [x for x in vlib.read_ndjson(ctx.path("cff_mism.ndjson")) if x["api"] == m["api"]]
        for x in mm:
            print("REPRODUCED api=%s class=%s ctx=%s prescribed=%s observed=%s" % (x["api"], x["class"], x["ctx"], vlib.short(x["exp"], 300), vlib.short(x["obs"], 300)))
        if not mm:
            print("not reproduced: the case now conforms")
        return 1 if mm else 0
    if d["source"] == "generated-cid":
        m = d["mismatch"]
        case = dict(m["input"])
        case["exp"] = m["exp"]
        cp = ctx.path("cid_case.ndjson")
        vlib.write_ndjson(cp, [case])
        vlib.run_harness(binp, ["replay-cid", cp, ctx.path("cid_mism.ndjson")])
        mm = [x for x in vlib.read_ndjson(ctx.path("cid_mism.ndjson")) if x["api"] == m["api"]]
        for x in mm:
            print("REPRODUCED api=%s class=%s prescribed=%s observed=%s" % (x["api"], x["class"], vlib.short(x["exp"], 300), vlib.short(x["obs"], 300)))
        if not mm:
            print("not reproduced: the case now conforms")
        return 1 if mm else 0
    # recorded: run the recording again (same seed and tier as the evidence says) and judge the events of that case
    m = d["mismatch"]
    tp = ctx.path("rec_trace.ndjson")
    vlib.run_harness(binp, ["record", ctx.seed, ctx.tier, tp], timeout=2400)
    sel = ctx.path("trace.ndjson")
    n = 0
    with open(tp) as f, open(sel, "w") as out:
        for ln in f:
            if json.loads(ln)["case"] == m["case"]:
                out.write(ln)
                n += 1
    if n == 0:
        print("not reproduced: case %s is not part of this seed/tier's recording (run with the seed and tier of the finding)" % m["case"])
        return 0
    res, mm = vlib.judge_trace(ctx, "Trace_Subset", "Trace_Subset.cfg", sel, "replay")
    for x in mm:
        print("REPRODUCED %s %s class=%s" % (x["case"], x["ev"], "+".join(x["class"])))
    if not mm:
        print("not reproduced: %d events of %s now conform" % (n, m["case"]))
    return 1 if mm else 0
