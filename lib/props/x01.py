"""X01 (extra, not one of the listed properties) - AAT `morx` shaping follows the extended glyph metamorphosis
state-table semantics of the TrueType Reference Manual.

spec -> impl : TLC explores MC_Morx (program templates x glyph strings) as a small-step machine (one state-table entry
               per step = one iteration of the inner loop of allsorts' process_glyphs, plus the end-of-text step),
               checks the design invariants (cursor / mark in the run, component stack bounded and ascending, run length
               changes only by ligature deletion, characters conserved, termination measure under the DONT_ADVANCE
               rank, small-step = big-step MorxSteps / MorxDenote) and prints the programs (PROG) and one CASE per
               (program, string) with the run after EVERY subtable under each conformant reading of the named Dev_
               choices, plus the runs of the known NON-conformant readings, used only to give a mismatch a stable
               key.  The harness encodes every program into real `morx` bytes (and every prefix of its subtable list)
               and replays every case on morx::apply (prefix by prefix and whole) and on Font::shape of a synthesized
               font that has morx and no GSUB.
impl -> spec : random programs (contextual machines, compiled ligature tries, noncontextual maps, chains with feature
               entries) on random strings are recorded and judged by Trace_Morx, which recomputes the denotation.
"""
import json
import subprocess

import vlib
from vlib import Violation

LEVEL = "model_checking"

ASSUMPTIONS = [
    "the harness' own encoder (x01_morx/enc.rs) writes the `morx` table the abstract program describes; allsorts reads "
    "the bytes with its production reader (MorxTable::read_dep, Font::morx_table)",
    "horizontal left-to-right text; the modelled fragment is Morx!WFProgram: lookup tables ascending and non-overlapping, "
    "class values 1 or >= 4, no DONT_ADVANCE cycle, no current-glyph substitution in end-of-text entries, ligature "
    "entries with DONT_ADVANCE neither push nor act, STORE only together with LAST, end-of-text entries of ligature "
    "tables without flags, action lists that neither underflow the stack nor index outside their tables",
    "rearrangement (type 0) and insertion (type 5) subtables are not implemented by allsorts and are modelled as having "
    "no effect (Dev_UnimplementedTypes); runs are compared modulo glyph 0xFFFF (Dev_DeletedInOutput); whether the "
    "components deleted by a ligature are removed before the next subtable or seen by it as deleted glyphs is accepted "
    "either way (Dev_LigDeletedRemovedEagerly)",
    "which AAT (feature type, setting) pairs a FeatureMask bit requests is allsorts' own table (Dev_FeatureMapping); "
    "Features::Custom selects the default flags (Dev_CustomFeaturesUseDefaults); glyph_origin bookkeeping as in "
    "Dev_OriginBookkeeping",
    "the repository contains no font with a morx table (scanned by the harness): no real-font traces",
]

REQUIRED_TAGS = [
    "nonctx-subst", "nonctx-miss", "nonctx-identity",
    "ctx-current-subst", "ctx-mark-subst", "ctx-set-mark", "ctx-dont-advance", "ctx-eot", "ctx-eot-mark-subst",
    "ctx-mark-unset", "ctx-mark-is-current", "ctx-subst-to-deleted", "ctx-current-resubst", "ctx-mark-resubst",
    "ctx-class-oob", "ctx-class-deleted", "ctx-class-table",
    "lig-push", "lig-action", "lig-formed-2", "lig-formed-3", "lig-gap", "lig-stack-leftover", "lig-last-without-store",
    "lig-negative-offset", "lig-of-ligature", "lig-dont-advance", "lig-class-deleted",
    "type-0-no-effect", "type-5-no-effect", "subtable-not-selected",
    "class-fmt0", "class-fmt2", "class-fmt4", "class-fmt6", "class-fmt8", "class-fmt10",
    "lookup-fmt0", "lookup-fmt2", "lookup-fmt4", "lookup-fmt6", "lookup-fmt8", "lookup-fmt10",
]
REQUIRED_STATS = [
    "cases_changing_the_run", "cases_shortening_the_run", "cases_with_several_conformant_outcomes",
    "cases_where_a_known_wrong_reading_differs", "cases_with_several_subtables", "route_prefix", "route_apply", "route_shape",
    "deleted_glyphs_dropped_by_projection",
]
REQUIRED_FAMILIES = [
    "ctx-start-state", "ctx-mark-chain",
    "nonctx", "ctx-current", "ctx-mark", "ctx-end-of-text", "ctx-da-redispatch", "ctx-da-twice", "ctx-mark-twice",
    "ctx-delete-then-nonctx", "lig-2", "lig-2-da", "lig-3", "lig-overlap", "lig-nested", "lig-gap", "lig-then-ctx",
    "features", "types-0-5", "coverage-vertical-only", "coverage-both", "coverage-descending-ctx",
]


def _got_class(got):
    if isinstance(got, list) and got and isinstance(got[-1], str):
        got = got[-1]
    if isinstance(got, str):
        return got[:80].replace(" ", "_")
    return "run-differs"


def _key(family, bug, bugtags, got):
    """explained by a known non-conformant reading: its name (+ what the code reading did wrong); otherwise the
    family of the program and the class of what allsorts returned"""
    if bug:
        if bug == "lig-start-pos-drain" and bugtags:
            return "morx|%s|%s" % (bug, "+".join(sorted(bugtags)))
        return "morx|" + bug
    return "morx|unexplained:%s|%s" % (family, _got_class(got))


def _glyphs(run):
    if isinstance(run, list):
        return [_glyphs(x) if isinstance(x, list) else (x["g"] if isinstance(x, dict) else x) for x in run]
    return run


def run(ctx):
    binp = vlib.build_harness("x01_morx")
    cfg = "MC_Morx_quick.cfg" if ctx.quick else "MC_Morx_thorough.cfg"
    prog_path, cases_path = ctx.path("progs.ndjson"), ctx.path("cases.ndjson")
    n_cases, n_prog = [0], [0]
    samples, planted = [], []
    with open(prog_path, "w") as fp, open(cases_path, "w") as fc:
        def sink(tag, payload):
            if tag == "PROG":
                fp.write(payload + "\n")
                n_prog[0] += 1
            elif tag == "CASE":
                fc.write(payload + "\n")
                n_cases[0] += 1
                if len(samples) < 1 and '"lig-formed-3"' in payload and len(payload) < 1500:
                    samples.append(payload)
                if not planted and '"lig-formed-2"' in payload and '"alts":[]' in payload and '"bugs":[]' in payload:
                    planted.append(payload)
        mc = vlib.run_tlc(ctx, "MC_Morx", cfg, "mc", workers=4, timeout=600 if ctx.quick else 2400, sink=sink,
                          xmx="6g")
    ctx.note("MC_Morx: %d states generated, %d distinct, depth %d, %d programs, %d cases (%.1fs)" %
             (mc.generated, mc.distinct, mc.depth, n_prog[0], n_cases[0], mc.wall))
    if n_cases[0] == 0 or n_prog[0] == 0:
        raise vlib.ToolError("no CASE/PROG lines generated")
    if not planted:
        raise vlib.ToolError("no ligature case generated: generator is vacuous")

    # binding self-check (spec -> impl): a case whose expectation was corrupted (ligature glyph changed by one, one
    # character dropped from it) must be reported by every route of the replay
    bad = json.loads(planted[0])
    bad["selftest"] = True
    hit = False
    for g in bad["steps"][-1]:
        if len(g["c"]) >= 2 and not hit:
            g["g"] += 1
            g["c"] = g["c"][:-1]
            hit = True
    if not hit:
        raise vlib.ToolError("planted case has no ligature glyph")
    with open(cases_path, "a") as fc:
        fc.write(json.dumps(bad) + "\n")

    programs = {}
    for t in vlib.read_ndjson(prog_path):
        programs[t["p"]] = t
    families = {}
    for t in programs.values():
        families[t["name"]] = families.get(t["name"], 0) + 1

    # spec -> impl
    mism_path = ctx.path("mismatches.ndjson")
    rep = vlib.run_harness(binp, ["replay", prog_path, cases_path, mism_path], timeout=1800)
    ctx.note("replay: %s" % json.dumps({k: v for k, v in rep.items() if k != "tags"}))
    violations = []
    planted_stages = set()
    by_case = {}
    for m in vlib.read_ndjson(mism_path):
        by_case.setdefault(json.dumps([m["p"], m["in"], m.get("selftest")]), []).append(m)
    n_mism_cases = 0
    explained = {}
    for ms in by_case.values():
        if ms[0].get("selftest"):
            planted_stages |= {m["stage"] for m in ms}
            continue
        n_mism_cases += 1
        seen = set()
        for m in ms:
            key = _key(m["name"], m.get("bug"), m.get("bugtags") or [], m["got"])
            if key in seen:
                continue
            seen.add(key)
            explained[key] = explained.get(key, 0) + 1
            t = programs[m["p"]]
            what = "generated %s (route %s, all routes failing: %s): in=%s want %s got %s" % (
                m["name"], m["stage"], sorted({x["stage"] for x in ms}), m["in"],
                vlib.short(_glyphs(m["want"]), 160), vlib.short(_glyphs(m["got"]), 160))
            violations.append(Violation(key, what, {"source": "generated", "stage": m["stage"], "p": m["p"], "name": m["name"],
                                                    "prog": t["prog"], "in": m["in"], "want": m["want"], "got": m["got"],
                                                    "bug": m.get("bug")}))
    if planted_stages != {"prefix", "apply", "shape"}:
        raise vlib.ToolError("binding self-check failed: the corrupted expectation was reported by routes %s only" %
                             sorted(planted_stages))

    # impl -> spec
    n_rnd, n_str = (400, 10) if ctx.quick else (6000, 16)
    trace = ctx.path("trace.ndjson")
    rec = vlib.run_harness(binp, ["record", ctx.seed, n_rnd, n_str, trace], timeout=1800)
    ctx.note("record: %s" % json.dumps(rec))
    events = vlib.read_ndjson(trace)
    rec_stats = {"apply_events": 0, "changing_the_run": 0, "shortening_the_run": 0, "errors": 0, "route_shape": 0}
    plant_after = {}
    prog_of, cur = {}, None
    for e in events:
        if e["ev"] == "Prog":
            cur = e
            continue
        prog_of[e["i"]] = cur
        run_ = e["o"]["run"]
        rec_stats["apply_events"] += 1
        rec_stats["route_shape"] += 1 if e["a"]["route"] == "shape" else 0
        changed = [x["g"] for x in run_] != e["a"]["in"]
        rec_stats["changing_the_run"] += 1 if changed else 0
        rec_stats["shortening_the_run"] += 1 if len(run_) < len(e["a"]["in"]) and not e["o"]["err"] else 0
        rec_stats["errors"] += 1 if e["o"]["err"] else 0
        if e["o"]["err"] or not changed:
            continue
        # corrupted copies of recorded events, placed right behind the original (an Apply event refers to the latest
        # Prog event), must be rejected by the judge
        if "glyph" not in plant_after:
            b = json.loads(json.dumps(e))
            b["i"] = 10 ** 8 + 1
            b["o"]["run"][0]["g"] = (b["o"]["run"][0]["g"] + 1) % cur["a"]["prog"]["n"]
            plant_after["glyph"] = (e["i"], b)
        if "chars" not in plant_after and any(len(x["c"]) >= 2 for x in run_):
            b = json.loads(json.dumps(e))
            b["i"] = 10 ** 8 + 2
            for x in b["o"]["run"]:
                if len(x["c"]) >= 2:
                    x["c"] = x["c"][:-1]
                    break
            plant_after["chars"] = (e["i"], b)
        if "origin" not in plant_after and any(x["o"] == 1 for x in run_):
            b = json.loads(json.dumps(e))
            b["i"] = 10 ** 8 + 3
            for x in b["o"]["run"]:
                if x["o"] == 1:
                    x["o"] = 0
                    break
            plant_after["origin"] = (e["i"], b)
    planted_ids = {b["i"] - 10 ** 8 for _, (_, b) in plant_after.items()}
    after = {}
    for _, (i, b) in plant_after.items():
        after.setdefault(i, []).append(b)
    with open(trace, "w") as f:
        for e in events:
            f.write(json.dumps(e, separators=(",", ":")) + "\n")
            for b in after.get(e["i"], []):
                f.write(json.dumps(b, separators=(",", ":")) + "\n")
    by_i = {e["i"]: e for e in events}
    other = {"UNMODELLED": []}
    total, mism = vlib.judge_trace_parallel(ctx, "Trace_Morx", "Trace_Morx.cfg", trace, "judge",
                                            parts=4 if ctx.quick else 6, other_tags=other)
    ctx.note("judge: %d events, %d mismatch lines, %d unmodelled" % (total, len(mism), len(other["UNMODELLED"])))
    seen_self, rec_seen = set(), set()
    rec_explained = {}
    for m in sorted(mism, key=lambda m: m["i"]):
        if m["i"] > 10 ** 8:
            seen_self.add(m["i"] - 10 ** 8)
            continue
        e = by_i[m["i"]]
        pe = e if e["ev"] == "Prog" else prog_of[m["i"]]
        family = "recorded"
        key = _key(family, m.get("bug"), m.get("bugtags") or [], m["got"])
        rec_explained[key] = rec_explained.get(key, 0) + 1
        if (e["case"], key) in rec_seen:
            continue
        rec_seen.add((e["case"], key))
        what = "recorded random program %s (route %s): in=%s want %s got %s" % (
            e["case"], m["stage"], e["a"].get("in"), vlib.short(_glyphs(m["want"]), 160), vlib.short(_glyphs(m["got"]), 160))
        violations.append(Violation(key, what, {"source": "recorded", "stage": m["stage"], "case": e["case"], "seed": ctx.seed,
                                                "prog": pe["a"]["prog"], "in": e["a"].get("in"),
                                                "want": m["want"], "got": m["got"], "bug": m.get("bug")}))
    if seen_self != planted_ids:
        raise vlib.ToolError("binding self-check failed: Trace_Morx accepted a corrupted event (planted %s, rejected %s)" %
                             (sorted(planted_ids), sorted(seen_self)))
    unmodelled = {}
    for u in other["UNMODELLED"]:
        unmodelled[u["why"]] = unmodelled.get(u["why"], 0) + 1
    outside = [u for u in other["UNMODELLED"] if "outside Morx!WFProgram" in u["why"] or "misbehave" in u["why"]]
    if outside:
        raise vlib.ToolError("random generator produced programs outside the modelled fragment: %s" % outside[:3])

    # robustness probe (information for C01, not a verdict of this check): a table with a DONT_ADVANCE cycle
    try:
        p = subprocess.run([binp, "hang-probe"], stdout=subprocess.PIPE, stderr=subprocess.STDOUT, text=True, timeout=5)
        probe = "returned: " + p.stdout.strip().splitlines()[-1][:100]
    except subprocess.TimeoutExpired:
        probe = "morx::apply did not return within 5 s (no DONT_ADVANCE bound in allsorts)"
    ctx.note("DONT_ADVANCE cycle probe: " + probe)

    stats, tags = rep.get("stats", {}), rep.get("tags", {})
    # vacuity guards protect the verdict "held": they are moot when a new violation is being reported anyway
    known = vlib.load_known(ctx.prop)
    if all(v.key in known for v in violations):
        for k in REQUIRED_STATS:
            if stats.get(k, 0) == 0:
                raise vlib.ToolError("vacuity: no generated case exercised %s" % k)
        for k in REQUIRED_TAGS:
            if tags.get(k, 0) == 0:
                raise vlib.ToolError("vacuity: no generated case took the branch %s of the specification" % k)
        for k in REQUIRED_FAMILIES:
            if families.get(k, 0) == 0:
                raise vlib.ToolError("vacuity: program family %s is missing" % k)
        if planted_ids != {1, 2, 3}:
            raise vlib.ToolError("recorded trace is vacuous: nothing substituted / no ligature / no direct glyph recorded "
                                 "to plant a corrupted copy of (planted %s)" % sorted(planted_ids))
        if rec_stats["shortening_the_run"] == 0 or rec_stats["route_shape"] == 0:
            raise vlib.ToolError("vacuity: recorded trace never formed a ligature / never went through Font::shape")
        for k in ("t1", "t2", "t4"):
            if not any(k[1] in kk[1:] for kk in rec.get("kinds", {})):
                raise vlib.ToolError("vacuity: no random program with subtable type %s" % k[1])

    routes = sum(stats.get(k, 0) for k in ("route_prefix", "route_apply", "route_shape"))
    coverage = {
        "states": mc.distinct,
        "transitions": mc.generated,
        "evaluations": n_cases[0] + rec_stats["apply_events"],
        "distinct_nontrivial": stats.get("cases_changing_the_run", 0),
        "rule": "one case per (program template, glyph string) of the bounded model, all distinct; non-trivial = the "
                "specification expects the run to change (recorded events are counted in evaluations only)",
        "impl_executions": routes + rec_stats["apply_events"],
        "traces_validated_against_impl": n_cases[0] + rec_stats["apply_events"],
        "samples": [json.loads(s) for s in samples[:1]] +
                   [{k: e[k] for k in ("i", "case", "ev", "a", "o")} for e in events
                    if e["ev"] == "Apply" and len(e["a"]["in"]) > 2 and len(e["o"]["run"]) < len(e["a"]["in"])][:1],
        "generated_programs": n_prog[0],
        "generated_program_families": families,
        "generated_cases": n_cases[0],
        "generated_cases_with_mismatch": n_mism_cases,
        "generated_mismatches_by_key": explained,
        "table_bytes_encoded": rep.get("table_bytes_encoded", 0),
        "recorded_events_judged": total,
        "recorded": rec_stats,
        "recorded_program_kinds": rec.get("kinds", {}),
        "recorded_mismatch_events_by_key": rec_explained,
        "recorded_unmodelled": unmodelled,
        "repo_fonts_scanned": rec.get("repo_fonts_scanned", 0),
        "repo_fonts_with_morx": len(rec.get("repo_fonts_with_morx", [])),
        "dont_advance_cycle_probe": probe,
        "vacuity": stats,
        "spec_branches_taken": tags,
        "tlc_states_generated": mc.generated,
        "binding_selfcheck": "corrupted generated expectation reported by all three routes of the replay; corrupted glyph, "
                             "corrupted ligature characters and corrupted origin events rejected by Trace_Morx",
        "exhaustive": True,
        "explanation": "exhaustive over the bounded model (config %s: every template x every string over the template's "
                       "alphabet up to its length bound); recorded traces are random samples" % cfg,
    }
    vlib.finish(ctx, LEVEL, coverage, violations, ASSUMPTIONS)


def replay(ctx, path):
    d = json.load(open(path))["detail"]
    binp = vlib.build_harness("x01_morx")
    pj = ctx.path("prog.json")
    with open(pj, "w") as f:
        json.dump({"prog": d["prog"]}, f)
    out = subprocess.run([binp, "one", pj, ",".join(str(g) for g in d["in"])], stdout=subprocess.PIPE, text=True).stdout
    print(out)
    hit = 0
    want = d["want"]
    for ln in out.splitlines():
        route, _, val = ln.partition(" ")
        try:
            got = json.loads(val.strip())
        except Exception:
            got = val.strip()
        if route == "prefix":
            if d["source"] == "generated" and d["stage"] == "prefix":
                if got != want:
                    hit += 1
                    print("REPRODUCED prefix want=%s got=%s" % (vlib.short(_glyphs(want), 300), vlib.short(_glyphs(got), 300)))
            continue
        if d["stage"] == "prefix":
            w = want[-1] if want else None
        else:
            w = want
        if w is not None and got != w:
            hit += 1
            print("REPRODUCED %s want=%s got=%s" % (route, vlib.short(_glyphs(w), 300), vlib.short(_glyphs(got), 300)))
    return 1 if hit else 0
