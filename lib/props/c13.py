"""C13 - user coordinates normalise per fvar and avar.

design       : TLC checks on a scaled-down fixed point, exhaustively, that the 16.16 procedure
               prescribed by OpenType (Normalize!RefNormalize) meets the exact semantics of the
               property (range, exact -1/0/+1 at min/default/max, accuracy max(1, slope) output
               units, monotone) - MC_Normalize, kind = "small".
spec -> impl : the same TLC run prints boundary cases at full width (axis triples x segment maps
               x user values computed by TLC to land on and next to every knot); the harness
               turns them into fvar/avar bytes and calls FvarTable::normalize.
impl -> spec : seeded random (axis, map, value) groups, the repository's variable fonts on a
               grid (FvarTable::normalize and the tuple returned by variations::instance), all
               65 536 F2Dot14 values through the conversions.
Every output, generated or recorded, is judged by Trace_Normalize (exact rational arithmetic on
14-bit limbs, Fix.tla).
Round 3: the judged class of segment maps is every map whose from-coordinates are in order (to-coordinates
over the whole 2.14 range, decreasing / flat segments, duplicates, missing -1/0/+1 records, one record); fvar
tables are written in many layouts (axesArrayOffset, axisSize, instanceSize, instances) whose record positions
TLC computes, and what FvarTable::read sees in them is judged against the table bytes (FvarRead events).
"""
import json
from fractions import Fraction

import vlib
from vlib import Violation

LEVEL = "model_checking"

ASSUMPTIONS = [
    "tolerance: |out - exact| <= max(1, slope of the avar segment in use) units of 2.14, the reading of the "
    "property text under which the 16.16 procedure prescribed by OpenType conforms (checked exhaustively on the "
    "scaled-down model)",
    "a user value exactly on an interior avar knot may be judged with the slope of either neighbouring segment "
    "(Dev_SegmentAtKnot)",
    "segment maps: every map whose from-coordinates do not decrease is judged (to-coordinates anywhere in the 2.14 "
    "range, duplicates, missing -1/0/+1 records); the avar function is piecewise linear between neighbouring "
    "records and the identity where no segment exists (fewer than two records, above the last record); the result "
    "is clamped to [-1, 1] for every map; monotonicity is required only when the to-coordinates do not decrease "
    "and the records cover [-1, 1]; fonts whose avar disagrees with fvar about the axis count are skipped",
    "Dev_BelowFirst: below the first record of a map without the -1 record (outside OpenType's scan rule, which "
    "never ends a segment on the first record) the identity and the extension of the first segment are both "
    "accepted; if that segment is narrower than 1/64 only the range clause is judged there",
    "Dev_StepAtRecord: less than one 16.16 unit away from a record the record's to-coordinate is accepted exactly "
    "(matters only where the function jumps: duplicate from-coordinates, ends of a map that does not cover [-1, 1])",
    "Dev_WideSegment: on a segment wider than 1.0 (only possible in a map without the 0 record or with "
    "from-coordinates beyond -1/+1) the 16.16 rounding of the position inside the segment costs up to one more unit: "
    "twice the tolerance is granted there (observed 1.00002 units on the map -2 -> -2, +2 -> +2)",
    "fvar tables of the check are well-formed (axesArrayOffset >= 16, axisSize >= 20, instanceSize 4n+4 or 4n+6, "
    "everything inside the table); malformed layouts are C01's",
    "axes with min > max are outside the quantifier (malformed; noted for C01)",
    "the harness' own fvar/avar writers and readers (40 lines) are trusted to transport the numbers",
]

WIDE = 32768 * 65536


def _axis_class(ax):
    if ax and isinstance(ax[0], list):          # a "failed" call is reported with all axes of the tuple
        return "wide-axis" if any(_axis_class(a) == "wide-axis" for a in ax) else "axis"
    if len(ax) != 3:
        return "-"
    return "wide-axis" if (ax[1] - ax[0] >= WIDE or ax[2] - ax[1] >= WIDE) else "axis"


def _key(m):
    clause = m["clause"]
    if clause == "failed":
        clause = "failed:" + (m.get("err") or "?").replace(" ", "_")[:90]
    return "%s|%s|%s" % (m["ev"], clause, _axis_class(m["ax"]))


def _mk_viol(m, source):
    what = "%s %s (%s): axis %s avar=%s map %s user value %s -> %s %s [%d in this group]" % (
        source, m["clause"], m["via"], m["ax"], m["avar"], vlib.short(m["map"], 120), m["v"],
        vlib.short(m["got"], 80), m.get("err", ""), m.get("nbad", 1))
    return Violation(_key(m), what, {"source": source, **m})


def _classify(events):
    """Vacuity counters over the judged inputs (classification of inputs only, no verdict)."""
    c = {"values": 0, "at_min": 0, "at_default": 0, "at_max": 0, "below_min": 0, "above_max": 0,
         "degenerate_axis_values": 0, "with_knots": 0, "wide_axis_values": 0, "via_instance": 0,
         "len_probes": 0, "len_probes_wrong": 0, "conv_values": 0,
         "map_to_beyond_values": 0, "map_decreasing_values": 0, "map_duplicate_from_values": 0,
         "map_without_mandatory_values": 0, "map_one_record_values": 0,
         "layout_offset_not_16_values": 0, "layout_wide_axis_record_values": 0, "layout_with_instances_values": 0,
         "layout_nonstd_via_instance": 0,
         "fvar_reads": 0, "fvar_reads_offset_not_16": 0, "fvar_reads_wide_axis_record": 0,
         "fvar_reads_instances_4n4": 0, "fvar_reads_instances_4n6": 0}
    for e in events:
        if e["ev"] == "NormalizeLen":
            c["len_probes"] += 1
            c["len_probes_wrong"] += e["a"]["len"] != e["a"]["naxes"]
        elif e["ev"] == "Conv":
            c["conv_values"] += e["a"]["n"]
        elif e["ev"] == "FvarRead":
            b = e["a"]["bytes"]
            if len(b) >= 16:
                u16 = lambda p: b[p] * 256 + b[p + 1]
                c["fvar_reads"] += 1
                c["fvar_reads_offset_not_16"] += u16(4) != 16
                c["fvar_reads_wide_axis_record"] += u16(10) > 20
                c["fvar_reads_instances_4n4"] += u16(12) > 0 and u16(14) == 4 * u16(8) + 4
                c["fvar_reads_instances_4n6"] += u16(12) > 0 and u16(14) == 4 * u16(8) + 6
        elif e["ev"] == "Normalize":
            axes = e["a"]["axes"]
            lay = e["a"].get("lay") or [16, 20, 0, 0]
            for j, m in enumerate(e["a"]["maps"] if e["a"]["avar"] else []):
                nt = len(e["a"]["tuples"])
                c["map_to_beyond_values"] += nt * any(abs(k[1]) > 16384 for k in m)
                c["map_decreasing_values"] += nt * any(m[k + 1][1] < m[k][1] for k in range(len(m) - 1))
                c["map_duplicate_from_values"] += nt * any(m[k + 1][0] == m[k][0] for k in range(len(m) - 1))
                c["map_without_mandatory_values"] += nt * (len(m) >= 2 and not all(x in m for x in
                                                           ([-16384, -16384], [0, 0], [16384, 16384])))
                c["map_one_record_values"] += nt * (len(m) == 1)
            nv = len(e["a"]["tuples"]) * len(axes)
            c["layout_offset_not_16_values"] += nv * (lay[0] != 16)
            c["layout_wide_axis_record_values"] += nv * (lay[1] > 20)
            c["layout_with_instances_values"] += nv * (lay[3] > 0)
            c["layout_nonstd_via_instance"] += nv * (e["a"]["via"] == "instance" and (lay[0] != 16 or lay[1] > 20))
            for t in e["a"]["tuples"]:
                for j, v in enumerate(t):
                    mn, df, mx = axes[j]
                    c["values"] += 1
                    c["at_min"] += v == mn
                    c["at_default"] += v == df
                    c["at_max"] += v == mx
                    c["below_min"] += v < mn
                    c["above_max"] += v > mx
                    c["degenerate_axis_values"] += (mn == df or df == mx)
                    c["with_knots"] += bool(e["a"]["avar"] and e["a"]["maps"][j])
                    c["wide_axis_values"] += _axis_class(axes[j]) == "wide-axis"
                    c["via_instance"] += e["a"]["via"] == "instance"
    return c


def _plant(events):
    """Binding self-check: corrupted copies of recorded events that the judge must reject."""
    planted = []
    for e in events:
        if e["ev"] == "Normalize" and e["a"]["via"] == "normalize" and all(e["o"]["ok"]) and \
                all(_axis_class(a) == "axis" for a in e["a"]["axes"]):
            maps = e["a"]["maps"]
            gentle = all(all(abs(m[k + 1][1] - m[k][1]) <= m[k + 1][0] - m[k][0] for k in range(len(m) - 1))
                         for m in maps)
            inner = [i for i, t in enumerate(e["a"]["tuples"])
                     if e["a"]["axes"][0][0] < t[0] < e["a"]["axes"][0][2] and t[0] != e["a"]["axes"][0][1]
                     and abs(e["o"]["outs"][i][0]) < 16000]
            if gentle and inner:
                bad = json.loads(json.dumps(e))
                bad["o"]["outs"][inner[0]][0] += 3
                bad["case"], bad["i"] = "selftest-accuracy", 10 ** 8 + 1
                planted.append(("accuracy", bad))
                break
    for e in events:
        if e["ev"] == "Normalize" and all(e["o"]["ok"]) and _axis_class(e["a"]["axes"][0]) == "axis":
            ax = e["a"]["axes"][0]
            at_def = [i for i, t in enumerate(e["a"]["tuples"]) if t[0] == ax[1]]
            if at_def and (not e["a"]["avar"] or not e["a"]["maps"][0] or [0, 0] in e["a"]["maps"][0]):
                bad = json.loads(json.dumps(e))
                bad["o"]["outs"][at_def[0]][0] = 1
                bad["case"], bad["i"] = "selftest-endpoint", 10 ** 8 + 2
                planted.append(("endpoint", bad))
                break
    # the final clamp: a value beyond +1 must be rejected
    for e in events:
        if e["ev"] == "Normalize" and all(e["o"]["ok"]) and e["a"]["tuples"]:
            bad = json.loads(json.dumps(e))
            bad["o"]["outs"][0][0] = 16385
            bad["case"], bad["i"] = "selftest-range", 10 ** 8 + 5
            planted.append(("range", bad))
            break
    # a decreasing segment collapsed onto its end record must be rejected (computed from the inputs only)
    done = False
    for e in events:
        if done:
            break
        if not (e["ev"] == "Normalize" and e["a"]["avar"] and all(e["o"]["ok"]) and
                _axis_class(e["a"]["axes"][0]) == "axis"):
            continue
        m, (mn, df, mx) = e["a"]["maps"][0], e["a"]["axes"][0]
        for k in range(len(m) - 1):
            (f0, t0), (f1, t1) = m[k], m[k + 1]
            if not (0 <= f0 < f1 <= 16384 and t1 < t0 and abs(t0) <= 16384 and abs(t1) <= 16384 and
                    t0 - t1 <= f1 - f0 and mx > df and
                    not any(r[0] in (f0, f1) for r in m[:k] + m[k + 2:])):
                continue
            for i, t in enumerate(e["a"]["tuples"]):
                x = Fraction(t[0] - df, mx - df) * 16384
                if f0 < x < f1 and df < t[0] < mx:
                    exact = t0 + (x - f0) * Fraction(t1 - t0, f1 - f0)
                    if abs(exact - t1) > 3:
                        bad = json.loads(json.dumps(e))
                        bad["o"]["outs"][i][0] = t1
                        bad["case"], bad["i"] = "selftest-accuracy", 10 ** 8 + 6
                        planted.append(("accuracy-decreasing", bad))
                        done = True
                        break
            if done:
                break
    for e in events:
        if e["ev"] == "FvarRead" and e["o"]["ok"] and e["o"]["axes"] and e["a"]["bytes"][5] != 16:
            bad = json.loads(json.dumps(e))
            bad["o"]["axes"][0][2] += 1
            bad["case"], bad["i"] = "selftest-axes", 10 ** 8 + 7
            planted.append(("axes", bad))
            break
    for e in events:
        if e["ev"] == "FvarRead" and e["o"]["ok"] and e["o"]["insts"] and e["o"]["insts"][-1]["ps"] >= 0:
            bad = json.loads(json.dumps(e))
            bad["o"]["insts"][-1]["ps"] += 1
            bad["case"], bad["i"] = "selftest-instances", 10 ** 8 + 8
            planted.append(("instances", bad))
            break
    for e in events:
        if e["ev"] == "NormalizeLen" and not e["o"]["ok"]:
            bad = json.loads(json.dumps(e))
            bad["o"] = {"ok": True, "err": "", "owned": False}
            bad["case"], bad["i"] = "selftest-length", 10 ** 8 + 3
            planted.append(("length", bad))
            break
    for e in events:
        if e["ev"] == "Conv":
            bad = json.loads(json.dumps(e))
            bad["o"]["back"][3][7] += 1
            bad["case"], bad["i"] = "selftest-conversion", 10 ** 8 + 4
            planted.append(("conversion", bad))
            break
    return planted


def run(ctx):
    binp = vlib.build_harness("c13_normalize")
    cfg = "MC_Normalize_quick.cfg" if ctx.quick else "MC_Normalize_thorough.cfg"
    cases_path = ctx.path("cases.ndjson")
    n_cases = [0]
    stat = {"small_states": 0, "small_values": 0, "degenerate": 0, "steep": 0, "flat": 0, "with_knots": 0}
    sample_cases = []
    with open(cases_path, "w") as fc:
        def sink(tag, payload):
            if tag == "CASE":
                fc.write(payload + "\n")
                n_cases[0] += 1
                if len(sample_cases) < 1 and '"map":[[' in payload:
                    sample_cases.append(json.loads(payload))
            elif tag == "STAT":
                s = json.loads(payload)
                stat["small_states"] += 1
                stat["small_values"] += s["n"]
                stat["degenerate"] += s["degenerate"]
                stat["steep"] += s["steep"]
                stat["flat"] += s["flat"]
                stat["with_knots"] += s["knots"] > 0
        mc = vlib.run_tlc(ctx, "MC_Normalize", cfg, "mc", workers=8, timeout=600 if ctx.quick else 1800, sink=sink)
    ctx.note("MC_Normalize: %d states generated, %d distinct; scaled-down design check on %d (axis, map) states / "
             "%d user values; %d full-width cases (%.1fs)" %
             (mc.generated, mc.distinct, stat["small_states"], stat["small_values"], n_cases[0], mc.wall))
    if n_cases[0] == 0 or stat["small_states"] == 0:
        raise vlib.ToolError("MC_Normalize generated no cases / checked no scaled-down states")
    for k in ("degenerate", "steep", "flat", "with_knots"):
        if stat[k] == 0:
            raise vlib.ToolError("scaled-down model is vacuous for '%s'" % k)

    # TLC's workers print in a run-dependent order: fix the order of the cases
    lines = sorted(open(cases_path).read().splitlines())
    with open(cases_path, "w") as fc:
        fc.write("\n".join(lines) + "\n")

    # spec -> impl: generated cases executed on allsorts
    gen_trace = ctx.path("gen_trace.ndjson")
    rep = vlib.run_harness(binp, ["replay", cases_path, gen_trace])
    ctx.note("replay: %s" % json.dumps(rep))
    # impl -> spec: random groups, repository fonts, conversions
    groups = 900 if ctx.quick else 6000
    rec_trace = ctx.path("rec_trace.ndjson")
    rec = vlib.run_harness(binp, ["record", ctx.seed, groups, rec_trace])
    ctx.note("record: %s" % json.dumps(rec))

    gen_events = vlib.read_ndjson(gen_trace)
    rec_events = vlib.read_ndjson(rec_trace)
    for e in rec_events:
        e["i"] += 10 ** 6
    events = gen_events + rec_events
    planted = _plant(events)
    want = {"accuracy", "endpoint", "length", "conversion", "range", "accuracy-decreasing", "axes", "instances"}
    # (reported after the judgement, and only if the tree has no violation: a badly broken tree must give exit 1)
    plant_problem = None
    if {p[0] for p in planted} != want:
        plant_problem = "binding self-check could not be planted: %s" % sorted(want - {p[0] for p in planted})
    trace = ctx.path("trace.ndjson")
    vlib.write_ndjson(trace, events + [p[1] for p in planted])

    other = {"CLASS": [], "OUTSIDE": []}
    total, mism = vlib.judge_trace_parallel(ctx, "Trace_Normalize", "Trace_Normalize.cfg", trace, "judge",
                                            parts=8 if ctx.quick else 12, other_tags=other)
    ctx.note("judge: %d events, %d mismatch lines" % (total, len(mism)))
    if total != len(events) + len(planted):
        raise vlib.ToolError("judge consumed %d of %d events" % (total, len(events) + len(planted)))

    violations = []
    planted_seen = set()
    plant_of_i = {p[1]["i"]: p[0] for p in planted}
    for m in sorted(mism, key=lambda m: m["i"]):
        if str(m["case"]).startswith("selftest-"):
            if m["clause"] == m["case"][len("selftest-"):]:
                planted_seen.add(plant_of_i.get(m["i"], m["clause"]))
            continue
        violations.append(_mk_viol(m, "generated" if m["i"] < 10 ** 6 else "recorded"))
    missing = {p[0] for p in planted} - planted_seen
    if plant_problem and not violations:
        raise vlib.ToolError(plant_problem)
    if missing and not violations:
        raise vlib.ToolError("binding self-check failed: corrupted events accepted by Trace_Normalize: %s" %
                             sorted(missing))

    cls = _classify(events)
    # which rule of the avar step decided each judged value (counted by the judge from the inputs)
    rules = {}
    for d in other["CLASS"]:
        for k, v in d.items():
            rules[k] = rules.get(k, 0) + v
    cls["avar_rule"] = rules
    cls["outside_quantifier_axes"] = len(other["OUTSIDE"])
    vac = [k for k in ("at_min", "at_default", "at_max", "below_min", "above_max", "degenerate_axis_values",
                       "with_knots", "via_instance", "len_probes_wrong", "map_to_beyond_values",
                       "map_decreasing_values", "map_duplicate_from_values", "map_without_mandatory_values",
                       "map_one_record_values", "layout_offset_not_16_values", "layout_wide_axis_record_values",
                       "layout_with_instances_values", "fvar_reads_offset_not_16", "fvar_reads_wide_axis_record",
                       "fvar_reads_instances_4n4", "fvar_reads_instances_4n6") if cls[k] == 0]
    vac += ["avar_rule:" + k for k in ("noavar", "identity", "below", "above", "record", "segment-clamped",
                                       "segment-down", "segment-flat", "segment-up") if rules.get(k, 0) == 0]
    if vac and not violations:
        raise vlib.ToolError("trace is vacuous for %s" % vac)
    if cls["conv_values"] != 65536:
        raise vlib.ToolError("conversion sweep covered %d values, not 65536" % cls["conv_values"])
    coverage = {
        "states": mc.distinct,
        "transitions": rep.get("calls", 0) + rec.get("calls", 0),
        "traces_validated_against_impl": len(events),
        "samples": sample_cases + [e for e in rec_events[:1]],
        "scaled_down_design_check": stat,
        "generated_cases": n_cases[0],
        "allsorts_calls": rep.get("calls", 0) + rec.get("calls", 0),
        "panics_observed": rep.get("panics", 0) + rec.get("panics", 0),
        "variable_fonts": rec.get("variable_fonts", 0),
        "instance_calls": rec.get("instance_calls", 0),
        "relaid_font_instance_calls": rec.get("variant_instance_calls", 0),
        "judged": cls,
        "mismatch_lines": len([m for m in mism if not str(m["case"]).startswith("selftest-")]),
        "binding_selfcheck": "corrupted events rejected: %s" % sorted(planted_seen),
        "tlc_states_generated": mc.generated,
        "exhaustive": True,
        "explanation": "exhaustive over the scaled-down model and the boundary sets of %s; random groups and the "
                       "font grid are samples; the F2Dot14 conversion sweep is exhaustive (65536 values)" % cfg,
    }
    vlib.finish(ctx, LEVEL, coverage, violations, ASSUMPTIONS)


def replay(ctx, path):
    d = json.load(open(path))["detail"]
    binp = vlib.build_harness("c13_normalize")
    if d["ev"] != "Normalize":
        print("re-run the check with VERIF_SEED=%d; event: %s" % (ctx.seed, vlib.short(d, 2000)))
        return 1
    if d["clause"] == "failed":
        print("re-run the check with VERIF_SEED=%d; event: %s" % (ctx.seed, vlib.short(d, 2000)))
        return 1
    vs = [d["v"]]
    if d["clause"] == "monotone":
        vs = sorted([d["v"], d["got"][1]])
    case = {"ax": d["ax"], "avar": d["avar"], "map": d["map"], "place": 0, "vs": vs}
    cp, tp = ctx.path("case.ndjson"), ctx.path("trace.ndjson")
    vlib.write_ndjson(cp, [case])
    vlib.run_harness(binp, ["replay", cp, tp])
    _, mism = vlib.judge_trace(ctx, "Trace_Normalize", "Trace_Normalize.cfg", tp, "judge")
    for m in mism:
        print("REPRODUCED %s: axis %s map %s value %s -> %s %s" % (m["clause"], m["ax"], m["map"], m["v"], m["got"],
                                                                   m["err"]))
    return 1 if mism else 0
