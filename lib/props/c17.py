"""C17 - text preprocessing only reorders marks and applies documented decompositions.

spec -> impl : TLC explores MC_Preprocess (every string up to the bound over nine representative
               code points per script alphabet; one primitive rearrangement per step; the relational
               invariants are checked on every step) and prints one CASE per finished text with the
               output the specification prescribes; the harness runs every CASE through
               allsorts::scripts::preprocess_text and compares by equality.
               MC_PreprocessSweep (same state machine and invariants, other Init) adds the sweeps:
               short fixed shapes with one or two positions running over whole Unicode blocks or over all
               combining marks, and long mark runs at the boundary sizes of sorting routines.
               Every CASE is also given to Font::map_glyphs (the observation point the property names);
               the unicodes of its glyphs are compared with the prescribed text minus variation selectors.
impl -> spec : seeded random strings per script tag are recorded (preprocess_text and Font::map_glyphs)
               and judged by Trace_Preprocess (relational clauses + documented pipeline + map_glyphs).
table        : the modified-combining-class table is part of the specification (specs/ModifiedCcc.tla:
               canonical class -> modified class as data, with lemmas TLC checks).  MC_ModifiedCcc prints
               the prescribed value per canonical class; the harness calls allsorts'
               modified_combining_class on every code point of that canonical class (crate
               unicode-canonical-combining-class) and compares by equality.  A difference is the
               violation mcc|ccc=<n>|want=<a>|got=<b>.
The reordering clauses of the other two directions are still evaluated with the table dumped from
allsorts, so that a wrong table value shows up once, as a table difference, not as thousands of
reordering mismatches.
"""
import concurrent.futures
import json
import re

import vlib
from vlib import Violation

LEVEL = "model_checking"

ASSUMPTIONS = [
    "the modified combining class table is specified in ModifiedCcc.tla (identity on the canonical classes "
    "except Hebrew 10..26 permuted after the SBL Hebrew manual / HarfBuzz, Telugu 84->4 and 91->5, Thai "
    "103->3, as documented in allsorts' src/unicode/mcc.rs) and compared with allsorts' public "
    "unicode::mcc::modified_combining_class for every code point; a value is prescribed only for the 56 "
    "canonical classes that characters have (Unicode 16, the enum of the crate "
    "unicode-canonical-combining-class) - unassigned class numbers are not compared",
    "canonical combining classes are taken from the crate unicode-canonical-combining-class (the same data "
    "allsorts reads), not from an independent copy of UnicodeData.txt",
    "the reordering clauses (replay and trace judge) are evaluated with the class table dumped from allsorts, "
    "whose values the table comparison constrains",
    "a character is a mark iff its modified class is not 0; every other character is a base",
    "tables of the spec are transcribed from UTR #53 (MCM list, AMTRA step 2), UnicodeData canonical "
    "decompositions (Indic split vowels, U+09DF), the Thai/Lao and Khmer OpenType shaping documents; the "
    "independent-vowel + dependent-vowel constraint pairs and the Thai/Lao above-base mark set are copied "
    "from the code (documents not available offline)",
    "Dev_AmScanBound: a SARA AM / Lao AM left whole because earlier splits pushed it beyond the original "
    "length of the text is accepted (content preserved) and reported as an OBSERVATION, not a violation",
    "Dev_RaSwapSites: the Kannada ra+halant+ZWJ swap is accepted at the start of the run only (what the "
    "code does) or at every occurrence",
]

OBSERVATION_TEXT = {
    "ThaiLao": "Dev_AmScanBound: SARA AM / Lao AM beyond the original text length is left undecomposed "
               "(thai_lao.rs reorder_marks iterates 0..cs.len() evaluated before the insertions)",
    "Indic": "Dev_RaSwapSites: ra+halant+ZWJ swapped at a site other than the documented one",
}


def _panic_class(msg):
    m = msg.rsplit(" @ ", 1)
    loc = m[1] if len(m) > 1 else ""
    f = loc.rsplit(":", 1)[0].rsplit("/src/", 1)[-1]
    return re.sub(r"\d+", "N", m[0])[:50].replace(" ", "_") + "@" + f


def _key(m):
    fails = sorted(m["fails"])
    if fails == ["panic"]:
        return "%s|panic|%s" % (m["family"], _panic_class(m["panic"]))
    if "mgpanic" in fails:
        return "%s|%s|%s" % (m["family"], ",".join(fails), _panic_class(m.get("mgpanic", "")))
    return "%s|%s" % (m["family"], ",".join(fails))


def _hex(cps):
    return " ".join("%04X" % c for c in cps)


def _mk_viol(m, source):
    what = "%s: preprocess_text(tag=%r, [%s]) -> [%s]%s; Font::map_glyphs unicodes [%s]%s; spec: [%s]; failing clauses: %s" % (
        source, m["tag"], _hex(m["in"]), _hex(m["got"]), (" PANIC " + m["panic"]) if m.get("panic") else "",
        _hex(m.get("mg", [])), (" PANIC " + m["mgpanic"]) if m.get("mgpanic") else "",
        _hex(m["want"]), ",".join(sorted(m["fails"])))
    return Violation(_key(m), what, {"source": source, **m})


def _judge(ctx, trace, mcc, tag, parts):
    """Judge a trace with several JVMs. Returns (events judged, MISMATCH dicts, DEV dicts)."""
    files = vlib.split_trace(trace, parts)

    def one(kf):
        k, f = kf
        return vlib.run_tlc(ctx, "Trace_Preprocess", "Trace_Preprocess.cfg", "%s.%d" % (tag, k), workers=1,
                            timeout=1800, xmx="3g", env_extra={"TRACE": f, "C17_MCC": mcc})
    total, mism, dev = 0, [], []
    with concurrent.futures.ThreadPoolExecutor(max_workers=len(files)) as ex:
        for res in ex.map(one, list(enumerate(files))):
            total += res.distinct - 1
            mism.extend(json.loads(x) for x in res.printed.get("MISMATCH", []))
            dev.extend(json.loads(x) for x in res.printed.get("DEV", []))
    return total, mism, dev


def _mcc_key(m):
    if m.get("panic"):
        return "mcc|ccc=%d|panic|%s" % (m["ccc"], _panic_class(m["panic"]))
    return "mcc|ccc=%d|want=%d|got=%d" % (m["ccc"], m["want"], m["got"])


def _mcc_viol(m):
    what = ("class table: allsorts::unicode::mcc::modified_combining_class gives modified class %d to %d of the %d "
            "code points of canonical combining class %d (%s; e.g. %s)%s; ModifiedCcc.tla prescribes %d" % (
                m["got"], m["count"], m["of"], m["ccc"], m.get("script", ""),
                " ".join("U+%04X" % c for c in m["cps"][:4]), (" PANIC " + m["panic"]) if m.get("panic") else "",
                m["want"]))
    return Violation(_mcc_key(m), what, {"source": "table", **m})


def _class_table(ctx, binp, tag="mcccc", only=None):
    """spec -> impl for the class table. Returns (TlcResult, harness stats, mismatch dicts, cases)."""
    cases_path = ctx.path(tag + "_cases.ndjson")
    mc = vlib.run_tlc(ctx, "MC_ModifiedCcc", "MC_ModifiedCcc.cfg", tag, workers=1, timeout=300, xmx="2g")
    cases = [json.loads(x) for x in mc.printed.get("CASE", [])]
    cases.sort(key=lambda c: c["ccc"])
    if [c["ccc"] for c in cases] != list(range(256)):
        raise vlib.ToolError("MC_ModifiedCcc did not print one CASE per canonical class 0..255")
    if only is not None:
        cases = [c for c in cases if c["ccc"] == only]
    # binding self-check: an expectation no tree can meet (outside 0..255) must be reported
    doc = [c for c in cases if c["documented"] and c["ccc"] != 0] or cases
    bad = dict(doc[-1], want=doc[-1]["want"] + 1000, id="selftest-corrupt")
    vlib.write_ndjson(cases_path, cases + [bad])
    mm_path = ctx.path(tag + "_mismatches.ndjson")
    st = vlib.run_harness(binp, ["classes", cases_path, mm_path])
    mism, planted_seen = [], False
    for m in vlib.read_ndjson(mm_path):
        if m.get("id") == "selftest-corrupt":
            planted_seen = True
        else:
            mism.append(m)
    if not planted_seen and only is None:
        raise vlib.ToolError("binding self-check failed: the harness accepted a corrupted class table case")
    return mc, st, mism, cases


def _event(i, case, tag, inp, out, panic="", mg=None, mgpanic=""):
    return {"i": i, "case": case, "ev": "Preprocess", "a": {"tag": tag, "in": inp},
            "o": {"out": out, "panic": panic, "mg": out if mg is None else mg, "mgpanic": mgpanic}}


_VARSEL = set(range(0x180B, 0x180E)) | {0x180F} | set(range(0xFE00, 0xFE10)) | set(range(0xE0100, 0xE01F0))

SWEEP_GENERATORS = ["pairs", "xpairs", "reph", "single", "am", "amtones", "marks", "yan", "raswap", "long"]
# (sweep generator / primitive) combinations that must have changed some generated text
SWEEP_NEEDED = ["pairs/constrain", "pairs/split", "xpairs/constrain", "reph/constrain", "single/split",
                "single/ksplit", "single/am", "single/sort", "am/am", "amtones/am", "marks/shadda", "marks/mcmA",
                "marks/mcmB", "marks/sort", "yan/yanukta", "raswap/raswap", "long/sort", "long/shadda",
                "long/mcmA", "long/am"]


def run(ctx):
    binp = vlib.build_harness("c17_preprocess")
    mcc = ctx.path("mcc.json")
    tab = vlib.run_harness(binp, ["table", mcc])
    ctx.note("class table: %s" % json.dumps(tab))
    if tab.get("entries", 0) < 100:
        raise vlib.ToolError("class table is implausibly small")

    # ---- the class table itself (spec -> impl) ---------------------------------------------------
    tmc, tst, tmism, tcases = _class_table(ctx, binp)
    ctx.note("MC_ModifiedCcc: %d states, lemmas of ModifiedCcc hold (%.1fs); classes: %s" %
             (tmc.distinct, tmc.wall, json.dumps(tst)))
    table_violations = [_mcc_viol(m) for m in tmism]
    n_doc = sum(1 for c in tcases if c["documented"])
    n_exc = sum(1 for c in tcases if c["exceptional"])
    # vacuity guards, from TLC's cases and the crate's canonical classes (not from allsorts' answers)
    if n_doc < 50 or n_exc < 19:
        raise vlib.ToolError("ModifiedCcc documents %d classes, %d exceptional: table is vacuous" % (n_doc, n_exc))
    if tst["classes_compared"] != n_doc or tst["exceptional_classes_exercised"] != n_exc:
        raise vlib.ToolError("class table comparison is vacuous: %d of %d documented classes and %d of %d exceptional "
                             "classes have a code point in the crate's data" %
                             (tst["classes_compared"], n_doc, tst["exceptional_classes_exercised"], n_exc))
    if tst.get("undocumented_classes_seen"):
        print("OBSERVATION: property=C17 canonical combining classes %s have code points but no documented modified "
              "class (newer Unicode data?); not compared" % tst["undocumented_classes_seen"], flush=True)

    # ---- spec -> impl -------------------------------------------------------------------------
    cfg = "MC_Preprocess_quick.cfg" if ctx.quick else "MC_Preprocess_thorough.cfg"
    scfg = "MC_PreprocessSweep_quick.cfg" if ctx.quick else "MC_PreprocessSweep_thorough.cfg"
    cases_path = ctx.path("cases.ndjson")
    sweep_path = ctx.path("sweep_cases.ndjson")
    n_cases = [0]
    n_sweep = [0]
    samples = []
    plant = [None]
    tlc_timeout = 1500 if ctx.quick else 3000

    def run_sweep():
        with open(sweep_path, "w") as fs:
            def ssink(tag, payload):
                if tag == "CASE":
                    fs.write(payload + "\n")
                    n_sweep[0] += 1
            return vlib.run_tlc(ctx, "MC_PreprocessSweep", scfg, "sweep", workers=5, timeout=tlc_timeout,
                                sink=ssink, env_extra={"C17_MCC": mcc})

    with concurrent.futures.ThreadPoolExecutor(max_workers=1) as pool, open(cases_path, "w") as fc:
        fut = pool.submit(run_sweep)            # the two generators are independent: run them side by side

        def sink(tag, payload):
            if tag == "CASE":
                fc.write(payload + "\n")
                n_cases[0] += 1
                if plant[0] is None or (len(samples) < 3 and n_cases[0] % 9973 == 0):
                    c = json.loads(payload)
                    if c["exp"] != c["in"] and len(c["ch"]) >= 2:
                        if plant[0] is None:
                            plant[0] = c
                        else:
                            samples.append(c)
        mc = vlib.run_tlc(ctx, "MC_Preprocess", cfg, "mc", workers=5, timeout=tlc_timeout,
                          sink=sink, env_extra={"C17_MCC": mcc})
        swp = fut.result()
        if n_cases[0] == 0 or plant[0] is None:
            raise vlib.ToolError("no CASE lines generated")
        if n_sweep[0] == 0:
            raise vlib.ToolError("no CASE lines generated by the sweeps")
        # binding self-checks (spec -> impl): a case whose expectation is "text unchanged" although the
        # specification changes it must be reported by the harness, and so must a case whose expectation for
        # preprocess_text is right but whose expectation for Font::map_glyphs is "text unchanged"
        bad = dict(plant[0], exp=plant[0]["in"], expm=plant[0]["in"], alt=[], altm=[], id="selftest-corrupt")
        fc.write(json.dumps(bad) + "\n")
        bad2 = dict(plant[0], expm=plant[0]["in"], altm=[], id="selftest-corrupt-mg")
        fc.write(json.dumps(bad2) + "\n")
    ctx.note("MC_Preprocess: %d states generated, %d distinct, depth %d, %d cases (%.1fs)" %
             (mc.generated, mc.distinct, mc.depth, n_cases[0], mc.wall))
    ctx.note("MC_PreprocessSweep: %d states generated, %d distinct, depth %d, %d cases (%.1fs)" %
             (swp.generated, swp.distinct, swp.depth, n_sweep[0], swp.wall))

    mism_path = ctx.path("mismatches.ndjson")
    rep = vlib.run_harness(binp, ["replay", cases_path, mism_path], hang_path=mism_path + ".hang")
    ctx.note("replay: %s" % json.dumps(rep))
    smism_path = ctx.path("sweep_mismatches.ndjson")
    srep = vlib.run_harness(binp, ["replay", sweep_path, smism_path], hang_path=smism_path + ".hang")
    ctx.note("replay of the sweeps: %s" % json.dumps(srep))
    gen_mism, gen_dev, planted_seen = [], [], set()
    for m in vlib.read_ndjson(mism_path) + vlib.read_ndjson(smism_path):
        if str(m.get("id")).startswith("selftest-"):
            planted_seen.add(m["id"])
        elif m["kind"] == "dev":
            gen_dev.append(m)
        else:
            gen_mism.append(m)
    if planted_seen != {"selftest-corrupt", "selftest-corrupt-mg"}:
        raise vlib.ToolError("binding self-check failed: the harness accepted a corrupted generated case (%s reported)"
                             % sorted(planted_seen))

    # ---- impl -> spec -------------------------------------------------------------------------
    per_tag = 2500 if ctx.quick else 40000
    trace = ctx.path("trace.ndjson")
    rec = vlib.run_harness(binp, ["record", ctx.seed, per_tag, trace], timeout=3000)
    ctx.note("record: %s" % json.dumps(rec))
    # binding self-check (impl -> spec): three corrupted copies of a recorded event whose text was changed
    # (text left unchanged; two characters swapped; preprocess_text right but map_glyphs' unicodes unchanged)
    planted = []
    with open(trace) as f:
        for ln in f:
            e = json.loads(ln)
            o, a = e["o"]["out"], e["a"]["in"]
            if o != a and len(o) == len(a) and not e["o"]["panic"] and not (set(a) & _VARSEL):
                planted.append(_event(10 ** 8, "selftest-unchanged", e["a"]["tag"], a, a))
                planted.append(_event(10 ** 8 + 2, "selftest-mg", e["a"]["tag"], a, o, mg=a))
                d = [k for k in range(len(o)) if o[k] != a[k]]
                sw = list(o)
                sw[d[0]], sw[d[-1]] = sw[d[-1]], sw[d[0]]
                planted.append(_event(10 ** 8 + 1, "selftest-swapped", e["a"]["tag"], a, sw))
                break
    if not planted:
        raise vlib.ToolError("no recorded event changed its text: trace is vacuous")
    # the generated mismatches are judged as well, so that the specification names the failing clauses
    extra = [_event(2 * 10 ** 8 + k, "generated-%d" % k, m["tag"], m["in"], m["got"], m.get("panic", ""),
                    mg=m["mg"], mgpanic=m.get("mgpanic", ""))
             for k, m in enumerate(gen_mism[:2000])]
    with open(trace, "a") as f:
        for x in planted + extra:
            f.write(json.dumps(x, separators=(",", ":")) + "\n")
    total, mism, dev = _judge(ctx, trace, mcc, "judge", parts=8 if ctx.quick else 12)
    ctx.note("judge: %d events, %d mismatches, %d accepted under a Dev_ reading" % (total, len(mism), len(dev)))
    if total != rec["events"] + len(planted) + len(extra):
        raise vlib.ToolError("judge consumed %d events, trace has %d" % (total, rec["events"] + len(planted) + len(extra)))

    violations = list(table_violations)
    seen_planted = set()
    judged_generated = set()
    for m in sorted(mism, key=lambda m: m["i"]):
        if m["case"].startswith("selftest-"):
            seen_planted.add(m["case"])
        elif m["case"].startswith("generated-"):
            judged_generated.add(m["case"])
            violations.append(_mk_viol(m, "generated"))
        else:
            violations.append(_mk_viol(m, "recorded"))
    if seen_planted != {"selftest-unchanged", "selftest-swapped", "selftest-mg"}:
        raise vlib.ToolError("binding self-check failed: Trace_Preprocess accepted a corrupted event (%s rejected)"
                             % sorted(seen_planted))
    if len(judged_generated) != len(extra):
        raise vlib.ToolError("MC_Preprocess and Trace_Preprocess disagree on %d generated cases"
                             % (len(extra) - len(judged_generated)))

    # observations: behaviour inside the property but off the documented pipeline
    obs = {}
    for d in gen_dev:
        obs.setdefault("ThaiLao" if d["tag"] in ("thai", "lao ") else "Indic", []).append(
            {"tag": d["tag"], "in": d["in"], "got": d["got"], "doc": d["exp"]})
    for d in dev:
        obs.setdefault("ThaiLao" if d["tag"] in ("thai", "lao ") else "Indic", []).append(
            {"tag": d["tag"], "in": d["in"], "got": d["got"], "doc": d["want"]})
    for fam, lst in sorted(obs.items()):
        lst.sort(key=lambda d: len(d["in"]))
        d = lst[0]
        print("OBSERVATION: property=C17 %s (%d cases; e.g. tag=%r [%s] -> [%s], documented [%s])" %
              (OBSERVATION_TEXT.get(fam, fam), len(lst), d["tag"], _hex(d["in"]), _hex(d["got"]), _hex(d["doc"])),
              flush=True)

    coverage = {
        "states": mc.distinct + swp.distinct,
        "transitions": mc.generated + swp.generated,
        "traces_validated_against_impl": n_cases[0] + n_sweep[0] + rec["events"],
        "samples": samples[:2] + [plant[0]],
        "generated_cases": n_cases[0],
        "bounded_strings_states": mc.distinct,
        "sweep_states": swp.distinct,
        "sweep_cases": n_sweep[0],
        "sweep_cases_per_generator": srep.get("cases_per_generator"),
        "sweep_generator_stage_counts": srep.get("generator_stage_counts"),
        "sweep_cases_per_tag": srep.get("cases_per_tag"),
        "sweep_cases_where_impl_changed_text": srep.get("impl_changed_text"),
        "map_glyphs_calls_generated": rep.get("map_glyphs_calls", 0) + srep.get("map_glyphs_calls", 0),
        "generated_cases_with_variation_selectors": rep.get("cases_with_variation_selectors"),
        "recorded_cluster_texts": rec.get("cluster_texts"),
        "recorded_two_class_run_texts": rec.get("two_class_run_texts"),
        "recorded_map_glyphs_panics": rec.get("map_glyphs_panics"),
        "generated_cases_per_tag": rep.get("cases_per_tag"),
        "generated_cases_where_impl_changed_text": rep.get("impl_changed_text"),
        "stage_changed_counts": rep.get("stage_changed_counts"),
        "generated_mismatches": len(gen_mism),
        "dev_readings_taken_generated": len(gen_dev),
        "recorded_events_judged": rec["events"],
        "recorded_events_where_impl_changed_text": rec.get("impl_changed_text"),
        "recorded_longest_mark_run": rec.get("longest_mark_run"),
        "recorded_panics": rec.get("panics"),
        "dev_readings_taken_recorded": len(dev),
        "observations": {fam: {"count": len(lst), "smallest": lst[0]} for fam, lst in obs.items()},
        "class_table_entries": tab["entries"],
        "class_table_states": tmc.distinct,
        "class_table_classes_documented": n_doc,
        "class_table_classes_compared": tst["classes_compared"],
        "class_table_classes_compared_per_script": tst.get("classes_compared_per_script"),
        "class_table_code_points_compared": tst["code_points_compared"],
        "class_table_nonstarter_code_points_compared": tst["nonstarter_code_points_compared"],
        "class_table_exceptional_classes_exercised": tst["exceptional_classes_exercised"],
        "class_table_exceptional_code_points": tst["exceptional_code_points"],
        "class_table_undocumented_classes_seen": tst.get("undocumented_classes_seen"),
        "class_table_mismatches": len(tmism),
        "tlc_depth": mc.depth,
        "binding_selfcheck": "corrupted class table case and two corrupted generated cases (preprocess_text, "
                             "map_glyphs) reported by the harness; three corrupted events rejected by the judge",
        "exhaustive": True,
        "explanation": "exhaustive over the bounded models (config %s: all strings up to the length bound over nine "
                       "code points per alphabet, 19 alphabets; config %s: ten sweeps of fixed shapes over whole "
                       "Unicode blocks / all combining marks and long runs); recorded traces are random samples"
                       % (cfg, scfg),
    }
    # vacuity guard: every primitive must have changed some generated text
    needed = {"sort", "shadda", "mcmA", "mcmB", "am", "constrain", "split", "ksplit", "yanukta", "raswap"}
    missing = needed - set((rep.get("stage_changed_counts") or {}).keys())
    if missing and not violations:      # (with violations in hand, report them rather than a tool error)
        raise vlib.ToolError("vacuous exploration: stages never changed a text: %s" % sorted(missing))
    # ... every sweep must have produced cases, and the primitives it is there for must have fired (counted on
    # TLC's own CASE lines: `gen` and `ch`), e.g. one dotted circle per prohibited pair of the table
    sgen = srep.get("cases_per_generator") or {}
    sst = srep.get("generator_stage_counts") or {}
    smissing = [g for g in SWEEP_GENERATORS if not sgen.get(g)] + [x for x in SWEEP_NEEDED if not sst.get(x)]
    if (smissing or sst.get("pairs/constrain", 0) < 60) and not violations:
        raise vlib.ToolError("vacuous sweeps: %s; pairs/constrain=%s" % (smissing, sst.get("pairs/constrain")))
    vlib.finish(ctx, LEVEL, coverage, violations, ASSUMPTIONS)


def replay(ctx, path):
    d = json.load(open(path))["detail"]
    binp = vlib.build_harness("c17_preprocess")
    if d.get("source") == "table" or d.get("kind") == "mcc":
        # the expectation is computed again by TLC, allsorts is asked again
        _, _, mism, cases = _class_table(ctx, binp, tag="replaymcc", only=d["ccc"])
        for m in mism:
            print("REPRODUCED key=%s %s" % (_mcc_key(m), _mcc_viol(m).what))
        if not mism:
            print("not reproduced: every code point of canonical class %d gets modified class %d" %
                  (d["ccc"], cases[0]["want"]))
        return 1 if mism else 0
    mcc = ctx.path("mcc.json")
    vlib.run_harness(binp, ["table", mcc])
    # run the input again on the current tree (preprocess_text and Font::map_glyphs) and let the judge decide
    trace = ctx.path("one_trace.ndjson")
    vlib.run_harness(binp, ["one", d["tag"], trace] + list(d["in"]))
    ev = vlib.read_ndjson(trace)[0]
    got = ev["o"]["out"]
    _, mism, dev = _judge(ctx, trace, mcc, "replayjudge", parts=1)
    for m in mism:
        print("REPRODUCED key=%s tag=%r in=[%s] got=[%s] spec=[%s] %s" %
              (_key(m), m["tag"], _hex(m["in"]), _hex(m["got"]), _hex(m["want"]), m.get("panic", "")))
    if not mism:
        print("not reproduced: preprocess_text(tag=%r, [%s]) -> [%s] conforms" % (d["tag"], _hex(d["in"]), _hex(got)))
    return 1 if mism else 0
