"""C17 - text preprocessing only reorders marks and applies documented decompositions.

spec -> impl : TLC explores MC_Preprocess (every string up to the bound over nine representative
               code points per script alphabet; one primitive rearrangement per step; the relational
               invariants are checked on every step) and prints one CASE per finished text with the
               output the specification prescribes; the harness runs every CASE through
               allsorts::scripts::preprocess_text and compares by equality.
impl -> spec : seeded random strings per script tag are recorded and judged by Trace_Preprocess
               (relational clauses + documented pipeline).
The modified-combining-class table is dumped from allsorts first and is an input of both.
"""
import concurrent.futures
import json
import re

import vlib
from vlib import Violation

LEVEL = "model_checking"

ASSUMPTIONS = [
    "the modified combining class table is an input (dumped from allsorts' public "
    "unicode::mcc::modified_combining_class); C17 does not constrain its values",
    "a character is a mark iff its modified class is not 0; every other character is a base",
    "tables of the spec are transcribed from UTR #53 (MCM list, AMTRA step 2), UnicodeData canonical "
    "decompositions (Indic split vowels, U+09DF), the Thai/Lao and Khmer OpenType shaping documents; the "
    "independent-vowel + dependent-vowel constraint pairs and the Thai/Lao above-base mark set are copied "
    "from the code (documents not available offline)",
    "Dev_AmScanBound: a SARA AM / Lao AM left whole because earlier splits pushed it beyond the original "
    "length of the text is accepted (content preserved) and reported as an OBSERVATION, not a violation",
    "Dev_RaSwapSites: the Kannada ra+halant+ZWJ swap is accepted at the start of the run only (what the "
    "code does) or at every occurrence",
]

OBSERVATION_TEXT = {
    "ThaiLao": "Dev_AmScanBound: SARA AM / Lao AM beyond the original text length is left undecomposed "
               "(thai_lao.rs reorder_marks iterates 0..cs.len() evaluated before the insertions)",
    "Indic": "Dev_RaSwapSites: ra+halant+ZWJ swapped at a site other than the documented one",
}


def _panic_class(msg):
    m = msg.rsplit(" @ ", 1)
    loc = m[1] if len(m) > 1 else ""
    f = loc.rsplit(":", 1)[0].rsplit("/src/", 1)[-1]
    return re.sub(r"\d+", "N", m[0])[:50].replace(" ", "_") + "@" + f


def _key(m):
    fails = sorted(m["fails"])
    if fails == ["panic"]:
        return "%s|panic|%s" % (m["family"], _panic_class(m["panic"]))
    return "%s|%s" % (m["family"], ",".join(fails))


def _hex(cps):
    return " ".join("%04X" % c for c in cps)


def _mk_viol(m, source):
    what = "%s: preprocess_text(tag=%r, [%s]) -> [%s]%s; spec: [%s]; failing clauses: %s" % (
        source, m["tag"], _hex(m["in"]), _hex(m["got"]), (" PANIC " + m["panic"]) if m.get("panic") else "",
        _hex(m["want"]), ",".join(sorted(m["fails"])))
    return Violation(_key(m), what, {"source": source, **m})


def _judge(ctx, trace, mcc, tag, parts):
    """Judge a trace with several JVMs. Returns (events judged, MISMATCH dicts, DEV dicts)."""
    files = vlib.split_trace(trace, parts)

    def one(kf):
        k, f = kf
        return vlib.run_tlc(ctx, "Trace_Preprocess", "Trace_Preprocess.cfg", "%s.%d" % (tag, k), workers=1,
                            timeout=1800, xmx="3g", env_extra={"TRACE": f, "C17_MCC": mcc})
    total, mism, dev = 0, [], []
    with concurrent.futures.ThreadPoolExecutor(max_workers=len(files)) as ex:
        for res in ex.map(one, list(enumerate(files))):
            total += res.distinct - 1
            mism.extend(json.loads(x) for x in res.printed.get("MISMATCH", []))
            dev.extend(json.loads(x) for x in res.printed.get("DEV", []))
    return total, mism, dev


def _event(i, case, tag, inp, out, panic=""):
    return {"i": i, "case": case, "ev": "Preprocess", "a": {"tag": tag, "in": inp}, "o": {"out": out, "panic": panic}}


def run(ctx):
    binp = vlib.build_harness("c17_preprocess")
    mcc = ctx.path("mcc.json")
    tab = vlib.run_harness(binp, ["table", mcc])
    ctx.note("class table: %s" % json.dumps(tab))
    if tab.get("entries", 0) < 100:
        raise vlib.ToolError("class table is implausibly small")

    # ---- spec -> impl -------------------------------------------------------------------------
    cfg = "MC_Preprocess_quick.cfg" if ctx.quick else "MC_Preprocess_thorough.cfg"
    cases_path = ctx.path("cases.ndjson")
    n_cases = [0]
    samples = []
    plant = [None]
    with open(cases_path, "w") as fc:
        def sink(tag, payload):
            if tag == "CASE":
                fc.write(payload + "\n")
                n_cases[0] += 1
                if plant[0] is None or (len(samples) < 3 and n_cases[0] % 9973 == 0):
                    c = json.loads(payload)
                    if c["exp"] != c["in"] and len(c["ch"]) >= 2:
                        if plant[0] is None:
                            plant[0] = c
                        else:
                            samples.append(c)
        mc = vlib.run_tlc(ctx, "MC_Preprocess", cfg, "mc", workers=8, timeout=600 if ctx.quick else 1500,
                          sink=sink, env_extra={"C17_MCC": mcc})
        if n_cases[0] == 0 or plant[0] is None:
            raise vlib.ToolError("no CASE lines generated")
        # binding self-check (spec -> impl): a case whose expectation is "text unchanged" although the
        # specification changes it must be reported by the harness
        bad = dict(plant[0], exp=plant[0]["in"], alt=[], id="selftest-corrupt")
        fc.write(json.dumps(bad) + "\n")
    ctx.note("MC_Preprocess: %d states generated, %d distinct, depth %d, %d cases (%.1fs)" %
             (mc.generated, mc.distinct, mc.depth, n_cases[0], mc.wall))

    mism_path = ctx.path("mismatches.ndjson")
    rep = vlib.run_harness(binp, ["replay", cases_path, mism_path])
    ctx.note("replay: %s" % json.dumps(rep))
    gen_mism, gen_dev, planted_seen = [], [], False
    for m in vlib.read_ndjson(mism_path):
        if m.get("id") == "selftest-corrupt":
            planted_seen = True
        elif m["kind"] == "dev":
            gen_dev.append(m)
        else:
            gen_mism.append(m)
    if not planted_seen:
        raise vlib.ToolError("binding self-check failed: the harness accepted a corrupted generated case")

    # ---- impl -> spec -------------------------------------------------------------------------
    per_tag = 2500 if ctx.quick else 40000
    trace = ctx.path("trace.ndjson")
    rec = vlib.run_harness(binp, ["record", ctx.seed, per_tag, trace], timeout=3000)
    ctx.note("record: %s" % json.dumps(rec))
    # binding self-check (impl -> spec): two corrupted copies of a recorded event whose text was changed
    planted = []
    with open(trace) as f:
        for ln in f:
            e = json.loads(ln)
            o, a = e["o"]["out"], e["a"]["in"]
            if o != a and len(o) == len(a) and not e["o"]["panic"]:
                planted.append(_event(10 ** 8, "selftest-unchanged", e["a"]["tag"], a, a))
                d = [k for k in range(len(o)) if o[k] != a[k]]
                sw = list(o)
                sw[d[0]], sw[d[-1]] = sw[d[-1]], sw[d[0]]
                planted.append(_event(10 ** 8 + 1, "selftest-swapped", e["a"]["tag"], a, sw))
                break
    if not planted:
        raise vlib.ToolError("no recorded event changed its text: trace is vacuous")
    # the generated mismatches are judged as well, so that the specification names the failing clauses
    extra = [_event(2 * 10 ** 8 + k, "generated-%d" % k, m["tag"], m["in"], m["got"], m.get("panic", ""))
             for k, m in enumerate(gen_mism[:2000])]
    with open(trace, "a") as f:
        for x in planted + extra:
            f.write(json.dumps(x, separators=(",", ":")) + "\n")
    total, mism, dev = _judge(ctx, trace, mcc, "judge", parts=8 if ctx.quick else 12)
    ctx.note("judge: %d events, %d mismatches, %d accepted under a Dev_ reading" % (total, len(mism), len(dev)))
    if total != rec["events"] + len(planted) + len(extra):
        raise vlib.ToolError("judge consumed %d events, trace has %d" % (total, rec["events"] + len(planted) + len(extra)))

    violations = []
    seen_planted = set()
    judged_generated = set()
    for m in sorted(mism, key=lambda m: m["i"]):
        if m["case"].startswith("selftest-"):
            seen_planted.add(m["case"])
        elif m["case"].startswith("generated-"):
            judged_generated.add(m["case"])
            violations.append(_mk_viol(m, "generated"))
        else:
            violations.append(_mk_viol(m, "recorded"))
    if seen_planted != {"selftest-unchanged", "selftest-swapped"}:
        raise vlib.ToolError("binding self-check failed: Trace_Preprocess accepted a corrupted event (%s rejected)"
                             % sorted(seen_planted))
    if len(judged_generated) != len(extra):
        raise vlib.ToolError("MC_Preprocess and Trace_Preprocess disagree on %d generated cases"
                             % (len(extra) - len(judged_generated)))

    # observations: behaviour inside the property but off the documented pipeline
    obs = {}
    for d in gen_dev:
        obs.setdefault("ThaiLao" if d["tag"] in ("thai", "lao ") else "Indic", []).append(
            {"tag": d["tag"], "in": d["in"], "got": d["got"], "doc": d["exp"]})
    for d in dev:
        obs.setdefault("ThaiLao" if d["tag"] in ("thai", "lao ") else "Indic", []).append(
            {"tag": d["tag"], "in": d["in"], "got": d["got"], "doc": d["want"]})
    for fam, lst in sorted(obs.items()):
        lst.sort(key=lambda d: len(d["in"]))
        d = lst[0]
        print("OBSERVATION: property=C17 %s (%d cases; e.g. tag=%r [%s] -> [%s], documented [%s])" %
              (OBSERVATION_TEXT.get(fam, fam), len(lst), d["tag"], _hex(d["in"]), _hex(d["got"]), _hex(d["doc"])),
              flush=True)

    coverage = {
        "states": mc.distinct,
        "transitions": mc.generated,
        "traces_validated_against_impl": n_cases[0] + rec["events"],
        "samples": samples[:2] + [plant[0]],
        "generated_cases": n_cases[0],
        "generated_cases_per_tag": rep.get("cases_per_tag"),
        "generated_cases_where_impl_changed_text": rep.get("impl_changed_text"),
        "stage_changed_counts": rep.get("stage_changed_counts"),
        "generated_mismatches": len(gen_mism),
        "dev_readings_taken_generated": len(gen_dev),
        "recorded_events_judged": rec["events"],
        "recorded_events_where_impl_changed_text": rec.get("impl_changed_text"),
        "recorded_longest_mark_run": rec.get("longest_mark_run"),
        "recorded_panics": rec.get("panics"),
        "dev_readings_taken_recorded": len(dev),
        "observations": {fam: {"count": len(lst), "smallest": lst[0]} for fam, lst in obs.items()},
        "class_table_entries": tab["entries"],
        "tlc_depth": mc.depth,
        "binding_selfcheck": "corrupted generated case reported by the harness; two corrupted events rejected by the judge",
        "exhaustive": True,
        "explanation": "exhaustive over the bounded model (config %s: all strings up to the length bound over nine "
                       "code points per alphabet, 19 alphabets); recorded traces are random samples" % cfg,
    }
    # vacuity guard: every primitive must have changed some generated text
    needed = {"sort", "shadda", "mcmA", "mcmB", "am", "constrain", "split", "ksplit", "yanukta", "raswap"}
    missing = needed - set((rep.get("stage_changed_counts") or {}).keys())
    if missing:
        raise vlib.ToolError("vacuous exploration: stages never changed a text: %s" % sorted(missing))
    vlib.finish(ctx, LEVEL, coverage, violations, ASSUMPTIONS)


def replay(ctx, path):
    d = json.load(open(path))["detail"]
    binp = vlib.build_harness("c17_preprocess")
    mcc = ctx.path("mcc.json")
    vlib.run_harness(binp, ["table", mcc])
    one = ctx.path("one_cases.ndjson")
    # run the input again on the current tree and let the judge decide
    vlib.write_ndjson(one, [{"tag": d["tag"], "in": d["in"], "exp": d["want"], "alt": [], "ch": [], "id": "replay"}])
    vlib.run_harness(binp, ["replay", one, ctx.path("one_mm.ndjson")])
    mm = vlib.read_ndjson(ctx.path("one_mm.ndjson"))
    got = mm[0]["got"] if mm else d["want"]
    panic = mm[0].get("panic", "") if mm else ""
    trace = ctx.path("one_trace.ndjson")
    vlib.write_ndjson(trace, [_event(0, "replay", d["tag"], d["in"], got, panic)])
    _, mism, dev = _judge(ctx, trace, mcc, "replayjudge", parts=1)
    for m in mism:
        print("REPRODUCED key=%s tag=%r in=[%s] got=[%s] spec=[%s] %s" %
              (_key(m), m["tag"], _hex(m["in"]), _hex(m["got"]), _hex(m["want"]), m.get("panic", "")))
    if not mism:
        print("not reproduced: preprocess_text(tag=%r, [%s]) -> [%s] conforms" % (d["tag"], _hex(d["in"]), _hex(got)))
    return 1 if mism else 0
