"""C01 - untrusted font data is rejected with an error, never a crash.

TLC (MC_FaultModel): (a) enumerates the abstract fault sequences of FaultModel.tla by (kind, role,
value class, level; value classes = twelve byte-level ones, for offset / index fields the
reference classes self / parent, for fields that are elements of an array the ten relational
classes: equal to / one above / one below the previous or next element, sum with it wraps the
field's width as an unsigned / signed number, for size / count / end-offset fields the two derived
classes: one less than / half of the value the other fields imply, and for format / flag fields the
sixteen bit classes: one bit toggled) - every sequence of at most two faults, thorough: triples on directory / header
fields - one CASE per sequence; (b) applies every concrete fault sequence up to the bound to three
model files (sfnt, collection, WOFF) and checks the model's own lemmas (the file never grows, the
container-level expectation is total, the judge's view gives the expectation of Sfnt.tla's reader, a
range past the end is an error for that table and for no other, the intact file loads); (c) prints
FILE / VAL cases that bind the harness' fault application, view cutting and value classes to the
spec by JSON equality.
Harness (c01_faults): instantiates each abstract sequence on the concrete fields of the repository
fonts (as they are, re-wrapped as TTC / WOFF / WOFF2, and inside decompressed WOFF / WOFF2 streams),
crosses it with the entry point groups that ask for the damaged table, every call supervised
(panic site, heap budget + RLIMIT_AS, thread-CPU budget, process death), one event per
(input, fault sequence, group).
TLC (Trace_FaultModel): judges every event: outcome alphabet, Safe(outcome), and for the container
group the exact expectations of FaultModel!ContainerExpect.
"""
import collections
import concurrent.futures
import glob
import json
import os
import re
import subprocess
import threading

import vlib
from vlib import Violation

LEVEL = "fault_enumeration"

ASSUMPTIONS = [
    "totality is observed, not proved: an operation that returns within its thread-CPU budget "
    "(max(2 s, 100 x its time on the intact font), at most 30 s) on every explored input is taken as terminating",
    "memory: a call whose live heap would grow by more than 1 GiB is refused the allocation (an error if allsorts "
    "handles it, otherwise the process aborts = outcome OOM); RLIMIT_AS of 4 GiB is the safety net; stack: calls run "
    "on a thread with an 8 MiB stack",
    "the harness is built with overflow-checks and debug-assertions on (as cargo test is): arithmetic overflow and "
    "debug_assert count as panics",
    "fields are those found by the structural walk of c01_faults/fields.rs (container headers, directories, table "
    "headers, first / middle / last array entries, the variation tables and CFF / CFF2 structures in full, composite "
    "glyphs and subroutine call operands of the glyphs the outlines group visits) plus every primitive "
    "read the cfg(allsorts_verif) hook logged on the intact font that the walk does not cover",
    "the reference classes self / parent are instantiated where the walk knows the containing structure and its parent "
    "(directory records, CFF DICT offsets, SVG / CBLC offsets, composite components, subroutine call operands inside "
    "subroutines, sequence lookup records, seac operands); offsets counted from their own structure have self = 0 = class zero",
    "the relational classes (eqprev, eqnext, prev+1, next-1, prev-1, next+1, uwrap-prev/next, swrap-prev/next) are instantiated on "
    "the fields the walk knows to be elements of an array - of scalars, the same member of consecutive records, or a tuple of "
    "like values such as minimum / default / maximum - whose neighbour lies inside the table; the sibling's value is read from the "
    "bytes the fault is applied to; on directory records they are sampled by seed per input (4 quick / 8 thorough per role x class)",
    "quick tier: every structural non-value field is crossed with every value class, and every array element (value fields "
    "included) with every relational class, only on the champion inputs (a cover of all kinds of field per table kind; every "
    "variable font); elsewhere table-level fields are sampled by seed",
    "the bit classes (bit0 .. bit15: one bit of the field toggled) are instantiated on the fields of role version - format "
    "numbers, transform versions and the flag bytes / words the walk knows (glyf simple and composite flags, lookup flags, "
    "coverage words, the flag byte of tupleIndex and tupleVariationCount, WOFF2 directory and hmtx transform flags); in "
    "headers and directories they are sampled by seed per input (2 quick / 8 thorough fields per bit)",
    "a fault sequence is crossed with the entry point groups that asked the table provider for a damaged table on the "
    "intact font (all groups for header-level faults, truncation, removal and swaps)",
    "container-level expectations are exact for sfnt, collections and uncompressed WOFF tables; for zlib-wrapped WOFF "
    "tables the expected result is the harness' own inflate of the byte range the record names (same flate2 crate); "
    "for WOFF2 only the fixed header and intact files are constrained (FaultModel.ContainerExpect 'Any')",
    "a zero-length table is an empty table wherever its offset points (ReadScope::offset_length); Sfnt.tla's reader "
    "is stricter there and the lemma ViewSuffices excludes zero-length records",
]

PART_LINES = 60000

# table kinds whose counts / offsets must have been faulted in every run (the repository fonts carry them)
REQUIRED_TABLE_KINDS = {
    "fvar": ("count", "offset"), "avar": ("count",), "gvar": ("count", "offset", "index"), "HVAR": ("count", "offset", "index"),
    "MVAR": ("count", "offset", "index"), "STAT": ("count", "offset", "index"), "CFF ": ("count", "offset", "index"),
    "CFF2": ("count", "offset", "index"), "glyf": ("count", "index"), "loca": ("offset",), "cmap": ("count", "offset"),
    "name": ("count", "offset"), "post": ("count",), "hhea": ("count",), "maxp": ("count",), "GSUB": ("count", "offset", "index"),
    "GPOS": ("count", "offset", "index"), "GDEF": ("offset",), "kern": ("count",), "sbix": ("count", "offset"),
    "EBLC": ("count", "offset", "length", "index"), "SVG ": ("count", "offset", "length"),
    # table kinds / sub-formats carried by the synthesized champion inputs (c01_faults/synth.rs)
    "EBDT": ("count", "index"), "CBLC": ("count", "offset", "length", "index"), "CBDT": ("count", "length"),
    "morx": ("count", "offset", "length", "index"), "cvar": ("count", "offset"), "VVAR": ("count", "offset", "index"),
}
# kinds of field (table kind : normalised name, regular expressions) that must have been overwritten in every run: one per
# sub-format the synthesized champions exist for - every EBLC / CBLC index format, every EBDT / CBDT image format, morx sub-table
# types and lookup formats, cmap formats, kern formats, post versions via their own fields, FDSelect formats
REQUIRED_FIELD_KINDS = [
    r"^EBLC:.*\.f1\.offset", r"^EBLC:.*\.f2\.imageSize", r"^EBLC:.*\.f3\.offset", r"^EBLC:.*\.f4\.numGlyphs", r"^EBLC:.*\.f4\.pair\.offset",
    r"^EBLC:.*\.f5\.imageSize", r"^EBLC:.*\.f5\.numGlyphs", r"^EBLC:.*\.f2\.bigMetrics\.height", r"^EBLC:.*\.f5\.bigMetrics\.width",
    r"^CBLC:.*\.f1\.offset", r"^CBLC:.*\.f2\.imageSize", r"^CBLC:.*\.f3\.offset", r"^CBLC:.*\.f4\.pair\.offset", r"^CBLC:.*\.f5\.imageSize",
    r"^EBDT:.*img1\.g\.height", r"^EBDT:.*img2\.g\.width", r"^EBDT:.*img6\.g\.height", r"^EBDT:.*img7\.g\.width", r"^EBDT:.*img8\.g\.numComponents",
    r"^EBDT:.*img9\.g\.numComponents", r"^EBDT:.*img8\.g\.comp\.glyphID", r"^CBDT:.*img17\.g\.dataLen", r"^CBDT:.*img18\.g\.dataLen",
    r"^CBDT:.*img19\.g\.dataLen",
    r"^morx:chain\.chainLength", r"^morx:.*\.t1\.nClasses", r"^morx:.*\.t2\.ligActionOffset", r"^morx:.*\.t1\.substitutionTableOffset",
    r"^morx:.*\.t4\.lk0\.", r"^morx:.*\.t4\.lk2\.nUnits", r"^morx:.*\.t4\.lk4\.seg\.offset", r"^morx:.*\.t4\.lk6\.nUnits", r"^morx:.*\.t4\.lk8\.glyphCount",
    r"^morx:.*\.t4\.lk10\.unitSize", r"^morx:.*\.t0\.nClasses", r"^morx:.*\.t5\.insertionActionOffset",
    r"^cmap:f0\.length", r"^cmap:f2\.sub\.entryCount", r"^cmap:f4\.segCountX2", r"^cmap:f6\.entryCount", r"^cmap:f10\.numChars",
    r"^cmap:f12\.numGroups", r"^cmap:f14\.numVarSelectorRecords",
    r"^kern:f0\.nPairs", r"^kern:f2\.rowWidth", r"^post:numGlyphs", r"^sbix:numStrikes", r"^sbix:strike\.glyphDataOffset", r"^SVG :doc\.svgDocLength",
    r"^cvar:", r"^VVAR:", r"^CFF2:fdSelect\.nRanges", r"^CFF2:fdSelect\.fd", r"^CFF :fdSelect",
    # flag fields the bit classes are for: the hmtx transform flags of the harness-built WOFF2 file, glyf simple and composite
    # flags, tuple variation flags, lookup flags
    r"^hmtx:xhmtx\.flags", r"^glyf:.*\.flags$", r"^gvar:.*tupleIndex\.flags", r"^gvar:.*tupleVariationCount\.flags", r"^G(SUB|POS):lookup\.flag",
]
# table kinds ("dir" = container level) in which both derived classes must have been planned with an effect on the bytes and applied
# content classes of the synthesized inputs (harness report `input_content_classes`: read back from the input bytes by the
# walk's own charstring interpreter / name table reader): an operator that finds exactly as many operands as the stack of a
# CFF2 (513) / CFF (48) interpreter holds, one more than that, and long name strings (> 63 bytes as UTF-8) with letters
# outside ASCII of UTF-8 width 2 and 4 (UTF-16 records) and from Macintosh Roman records; a DICT operator with 513 operands,
# DICT real numbers of exactly 64 characters (the conversion buffer of allsorts) and of more
REQUIRED_CONTENT = [("CFF2.max_operands", 513), ("CFF2.max_operands", 514), ("CFF.max_operands", 48), ("CFF.max_operands", 49),
                    ("CFF2.dict_max_operands", 513), ("CFF2.dict_real_chars", 64), ("CFF2.dict_real_chars", 66),
                    ("name.long.w2", 1), ("name.long.w4", 1), ("name.long.mac-high", 1)]
REQUIRED_DER_KINDS = ["dir", "EBLC", "EBDT", "CBLC", "CBDT", "cmap", "kern", "name", "morx", "SVG ", "hhea", "maxp", "fvar", "MVAR"]
DER = ("der-1", "der-half")
BITS = tuple("bit%d" % k for k in range(16))
# kinds of field on which the classes "self" / "parent" must have been instantiated
# table kinds ("dir" = container level) in which every relational class must have been planned with an effect on the bytes and
# applied in the run (arrays the repository fonts carry: segment maps, cmap segments / groups, offsets, records sorted by key)
REQUIRED_REL_KINDS = ["dir", "avar", "fvar", "gvar", "HVAR", "MVAR", "STAT", "cmap", "loca", "name", "hmtx", "glyf", "CFF ", "CFF2",
                      "GSUB", "GPOS", "kern", "post", "EBLC", "CBLC", "morx", "sbix", "SVG ", "VVAR"]
REL_PREV = ("eqprev", "prev+1", "prev-1", "uwrap-prev", "swrap-prev")
REL_NEXT = ("eqnext", "next-1", "next+1", "uwrap-next", "swrap-next")
REQUIRED_REF_KINDS = [r"^glyf:index:glyph\.comp\.glyphIndex$", r"^CFF :index:lsubr\.callsubr\.arg$", r"^CFF :index:gsubr\.callgsubr\.arg$",
                      r"^CFF2:index:lsubr\.callsubr\.arg$", r"^GSUB:index:lookup\.ctx.*lookupListIndex$", r"^dir:offset:rec\.offset$",
                      r"^CFF :offset:top\.op17\.arg$", r"^CFF :index:charstring\.seac\.[ab]char$"]


def _site_key(site):
    return "Panic|" + site


def _norm_field(name):
    """as norm_name of c01_faults.rs"""
    t = re.sub(r"\[[^\]]*\]", "", name)
    for kw in ("comp", "rec", "range", "axis", "arg", "byte", "coord", "word", "sub", "Offset", "rule", "peak", "start", "end", "subr", "gsubr", "lsubr"):
        t = re.sub(re.escape(kw) + r"\d+", kw, t)
    return t


def _dead_site(msg):
    m = re.search(r"\[site ([^\]]*)\]", msg)
    return m.group(1) if m else ""


def _fault_txt(f):
    k, role, vc, level, tbl, name, off, w, old, new = f
    if k == "Overwrite":
        return "Overwrite %s %s at byte %s width %s: %s -> %s (%s:%s, %s level)" % (tbl, name, off, w, old, new, role, vc, level)
    if k == "Truncate":
        return "Truncate file at byte %s (%s of %s)" % (off, name, tbl)
    if k == "RemoveTable":
        return "RemoveTable %s (%s at byte %s)" % (tbl, name, off)
    if k == "ShrinkLength":
        return "ShrinkLength %s %s at byte %s: %s -> %s" % (tbl, name, off, old, new)
    return "%s %s %s at byte %s" % (k, tbl, name, off)


def _min_faults(a):
    fs = a["faults"]
    mn = a.get("min") or []
    if mn and all(isinstance(k, int) and k < len(fs) for k in mn):
        return [fs[k] for k in mn]
    return fs


def _keys(m):
    """Stable keys of one non-conforming event (one event can carry several panic sites)."""
    a, o = m["a"], m["o"]
    keys = []
    fails = sorted(m["fails"])
    tool = [f for f in fails if f.startswith("Alphabet.") or f.startswith("View.")]
    if tool:
        return [("TOOL|" + ",".join(tool))]
    for f in fails:
        if f == "Unsafe.Panic":
            for s in o["panics"]:
                keys.append(_site_key(s))
        elif f.startswith("Unsafe."):
            # a dead process has no panic site; the standard library prints a backtrace when an allocation
            # fails, whose innermost allsorts frame is the site; otherwise the entry point group and the
            # damaged table stand in
            fs = _min_faults(a)
            f0 = fs[0] if fs else ["", "", "", "", "?", "?", 0, 0, "", ""]
            site = _dead_site(o.get("msg") or "")
            keys.append("%s|%s" % (f[len("Unsafe."):], site or "%s|%s" % (a["g"], f0[4])))
        else:
            keys.append("Container|%s|%s" % (a.get("kind", "") if "kind" in a else "", f))
    return keys


def _what(m, key):
    a, o = m["a"], m["o"]
    fs = _min_faults(a)
    txt = "; then ".join(_fault_txt(f) for f in fs) if fs else "intact file"
    extra = ""
    if key.startswith("Container|"):
        extra = " want=%s got=%s" % (vlib.short(m.get("want"), 200), vlib.short(m.get("got"), 300))
    msg = o.get("msg") or ""
    if key.startswith("Panic|") and key[len("Panic|"):] in o.get("panics", []):
        k = o["panics"].index(key[len("Panic|"):])
        if k < len(o.get("pmsg", [])):
            msg = o["pmsg"][k]
    return "input=%s [%s] entry point group=%s: outcome %s %s%s" % (
        a["input"], txt, a["g"], o["oc"], msg.replace("\n", " ")[:220], extra)


def _chunks(files, outdir, max_lines):
    """Merge the per-chunk traces into part files of at most max_lines events; a source file is
    deleted as soon as it is copied (the traces of a thorough run take gigabytes)."""
    parts, n = [], 0
    k, cur, fo = 0, 0, None
    for f in files:
        with open(f) as fi:
            for ln in fi:
                if fo is None or cur >= max_lines:
                    if fo:
                        fo.close()
                    p = os.path.join(outdir, "part.%d.ndjson" % k)
                    k += 1
                    cur = 0
                    fo = open(p, "w")
                    parts.append(p)
                fo.write(ln)
                cur += 1
                n += 1
        os.remove(f)
    if fo:
        fo.close()
    return parts, n


def _judge(ctx, parts, tag, pool=8):
    def one(kf):
        k, f = kf
        return vlib.run_tlc(ctx, "Trace_FaultModel", "Trace_FaultModel.cfg", "%s.%d" % (tag, k), workers=1, timeout=2400,
                            xmx="3g", env_extra={"TRACE": f})
    total, mism = 0, []
    with concurrent.futures.ThreadPoolExecutor(max_workers=pool) as ex:
        for res in ex.map(one, list(enumerate(parts))):
            total += res.distinct - 1
            mism.extend(json.loads(x) for x in res.printed.get("MISMATCH", []))
    return total, mism


def _count(files, out):
    """Vacuity counters, measured on the recorded events."""
    roles = collections.Counter()
    vcs = collections.Counter()
    kinds = collections.Counter()
    levels = collections.Counter()
    per_group = collections.defaultdict(collections.Counter)
    table_role = collections.defaultdict(collections.Counter)    # table kind -> role -> overwrites of table-level fields
    ref_kinds = collections.Counter()                            # reference-class overwrites per kind of field
    rel_kinds = collections.defaultdict(collections.Counter)     # table kind -> relational class -> applied overwrites that changed the bytes
    rel_jobs = {}                                                # case -> (table kind, class) of a single relational overwrite
    der_kinds = collections.defaultdict(collections.Counter)     # table kind -> derived class -> applied overwrites that changed the bytes
    field_kinds = collections.Counter()                          # "table kind:normalised field name" of overwritten structural table-level fields
    died = collections.defaultdict(collections.Counter)
    ok_to_err = collections.Counter()
    more_err = collections.Counter()
    nf = collections.Counter()
    jobs = {}
    inputs = set()
    flaky = 0
    samples = []
    for f in files:
        with open(f) as fi:
            for ln in fi:
                e = json.loads(ln)
                a, o = e["a"], e["o"]
                g = a["g"]
                per_group[g][o["oc"]] += 1
                if o["oc"] not in ("Ok", "Err", "Panic"):
                    died[g][o["oc"]] += 1
                if a["base"][0] == "Ok" and o["oc"] == "Err":
                    ok_to_err[g] += 1
                if a["base"][0] != "" and o["oc"] in ("Ok", "Err") and o["err"] > a["base"][2]:
                    more_err[g] += 1
                if o.get("flaky"):
                    flaky += 1
                noticed = a["base"][0] != "" and [o["oc"], o["ok"], o["err"]] != a["base"]
                c = e["case"]
                if c not in jobs:
                    jobs[c] = noticed
                    inputs.add(a["input"])
                    nf[a["nf"]] += 1
                    for ft in a["faults"]:
                        kinds[ft[0]] += 1
                        levels[ft[3]] += 1
                        if ft[1]:
                            roles[ft[1]] += 1
                        if ft[2]:
                            vcs[ft[2]] += 1
                        if ft[0] == "Overwrite" and ft[3] == "table" and ft[5] != "hook":
                            table_role[ft[4]][ft[1]] += 1
                            if ft[9] != "":
                                field_kinds["%s:%s" % (ft[4], _norm_field(ft[5]))] += 1
                        if ft[2] in DER and ft[9] != "" and ft[9] != ft[8]:
                            der_kinds["dir" if ft[3] == "dir" else ft[4]][ft[2]] += 1
                        if ft[2] in REL_PREV + REL_NEXT and ft[9] != "" and ft[9] != ft[8]:
                            rel_kinds["dir" if ft[3] == "dir" else ft[4]][ft[2]] += 1
                            if a["nf"] == 1:
                                rel_jobs[c] = ("dir" if ft[3] == "dir" else ft[4], ft[2])
                        if ft[2] in ("self", "parent") and ft[9] != "":
                            ref_kinds["%s:%s:%s" % ("dir" if ft[3] == "dir" else ft[4], ft[1], _norm_field(ft[5]))] += 1
                    if noticed and g != "container" and a["nf"] >= 1 and a["nf"] not in [x["nf"] for x in samples]:
                        samples.append({"nf": a["nf"], "input": a["input"], "faults": a["faults"], "group": g, "outcome": o["oc"],
                                        "calls_ok": o["ok"], "calls_err": o["err"], "baseline": a["base"]})
                elif noticed:
                    jobs[c] = True
    # informational (depends on what allsorts answered, so never a vacuity criterion): single relational overwrites that some
    # group answered differently from its baseline
    rel_noticed = collections.defaultdict(collections.Counter)
    for c, (t, vc) in rel_jobs.items():
        if jobs.get(c):
            rel_noticed[t][vc] += 1
    out.update({
        "relational_overwrites_noticed_per_table_kind": {t: dict(c) for t, c in sorted(rel_noticed.items())},
        "fault_sequences_run": len(jobs),
        "fault_sequences_noticed": sum(1 for v in jobs.values() if v),
        "inputs": len(inputs),
        "input_names": sorted(inputs),
        "faults_per_role": dict(roles), "faults_per_value_class": dict(vcs), "faults_per_kind": dict(kinds),
        "faults_per_level": dict(levels), "sequences_per_length": {str(k): v for k, v in nf.items()},
        "outcomes_per_group": {g: dict(c) for g, c in per_group.items()},
        "ok_to_err_per_group": dict(ok_to_err),
        "more_failing_calls_than_on_intact_per_group": dict(more_err),
        "flaky_events": flaky,
        "overwrites_per_table_kind_and_role": {t: dict(c) for t, c in sorted(table_role.items())},
        "reference_class_overwrites_per_field_kind": dict(sorted(ref_kinds.items())),
        "relational_class_overwrites_per_table_kind": {t: dict(c) for t, c in sorted(rel_kinds.items())},
        "derived_class_overwrites_per_table_kind": {t: dict(c) for t, c in sorted(der_kinds.items())},
        "overwritten_field_kinds": dict(sorted(field_kinds.items())),
        "process_deaths_per_group": {g: dict(c) for g, c in died.items()},
        "samples": samples,
    })


def _planted(base, any_ev, died_events):
    out = []

    def cp(src, name, i):
        e = json.loads(json.dumps(src))
        e["case"] = "selftest-" + name
        e["i"] = 10 ** 9 + i
        return e
    e = cp(any_ev, "panic", 0)
    e["o"].update({"oc": "Panic", "panics": ["x.rs|planted|planted"], "pmsg": ["planted @ /repo/src/x.rs:1"], "msg": "planted @ /repo/src/x.rs:1"})
    out.append(e)
    e = cp(any_ev, "timeout", 1)
    e["o"].update({"oc": "Timeout"})
    out.append(e)
    expect = {"selftest-panic": "Unsafe.Panic", "selftest-timeout": "Unsafe.Timeout"}
    # the events the supervisor writes for a dead process (written by the same code: c01_faults died-events), every
    # death class in the container group and in another group: each must be rejected as Unsafe.<class>
    for e in died_events:
        out.append(e)
        expect[e["case"]] = "Unsafe." + e["o"]["oc"]
    if base is not None:
        e = cp(base, "table", 2)
        e["o"]["facts"]["tabs"][0][2] = "Err"
        out.append(e)
        e = cp(base, "bytes", 3)
        e["o"]["facts"]["tabs"][0][4] = "0000000000000000"
        out.append(e)
        e = cp(base, "read", 4)
        e["o"]["facts"]["read"] = "Err"
        out.append(e)
        expect.update({"selftest-table": "Table.wantOk.gotErr", "selftest-bytes": "Table.otherBytes", "selftest-read": "Read.wantOk.gotErr"})
    return out, expect


def run(ctx):
    binp = vlib.build_harness("c01_faults")
    cfg = "MC_FaultModel_quick.cfg" if ctx.quick else "MC_FaultModel_thorough.cfg"
    gen, mc_path = [], ctx.path("mc.ndjson")
    n_mc = [0]
    with open(mc_path, "w") as fm:
        def sink(tag, payload):
            if tag == "CASE":
                gen.append(payload)
            elif tag in ("FILE", "VAL", "FILL"):
                fm.write(payload + "\n")
                n_mc[0] += 1
        mc = vlib.run_tlc(ctx, "MC_FaultModel", cfg, "mc", workers=4, timeout=900 if ctx.quick else 2400, sink=sink)
    gen.sort()      # TLC's printing order depends on worker scheduling; the plan must not
    cases_path = ctx.path("cases.ndjson")
    with open(cases_path, "w") as fc:
        fc.write("\n".join(gen) + "\n")
    ctx.note("MC_FaultModel: %d states, lemmas hold; %d abstract fault sequences, %d model-file / value cases (%.1fs)"
             % (mc.distinct, len(gen), n_mc[0], mc.wall))
    if not gen or not n_mc[0]:
        raise vlib.ToolError("MC_FaultModel printed no cases")

    # spec -> harness binding: value classes, fault application, view cutting (JSON equality)
    rtrace, rmism = ctx.path("replay.trace.ndjson"), ctx.path("replay.mismatch.ndjson")
    rep0 = vlib.run_harness(binp, ["replay", mc_path, rtrace, rmism], timeout=900)
    ctx.note("replay of model cases: %s" % json.dumps(rep0))
    if rep0.get("mismatches"):
        bad = vlib.read_ndjson(rmism)[0]
        raise vlib.ToolError("the harness does not implement FaultModel (%s): %s" % (bad.get("what"), vlib.short(bad, 600)))
    if not rep0.get("fill_cases"):
        raise vlib.ToolError("MC_FaultModel printed no buffer-filling (FILL) cases")

    outdir = ctx.path("traces")
    rep = vlib.run_harness(binp, ["run", ctx.tier, ctx.seed, cases_path, outdir, 8], timeout=3000 if ctx.quick else 7200)
    ctx.note("harness: %s" % json.dumps(rep))
    files = sorted(glob.glob(os.path.join(outdir, "trace.*.ndjson")))
    parts, n_events = _chunks(files, outdir, PART_LINES)
    counters = {}
    th = threading.Thread(target=_count, args=(parts, counters))
    th.start()

    # binding self-check: corrupted copies of a recorded event must be rejected, each for its own clause
    base, any_ev = None, None
    with open(parts[0]) as f:
        for ln in f:
            e = json.loads(ln)
            if any_ev is None and e["o"]["oc"] in ("Ok", "Err"):
                any_ev = e
            if e["ev"] == "Container" and e["o"]["oc"] in ("Ok", "Err") and not e["a"]["big"] and e["o"]["facts"]["read"] == "Ok" \
                    and e["o"]["facts"]["tabs"] and e["o"]["facts"]["tabs"][0][2] == "Ok" and e["a"]["kind"] in ("sfnt", "ttc"):
                base = e
                break
    if any_ev is None:
        any_ev = json.loads(open(parts[0]).readline())
    if base is None:
        # nothing loads (a tree broken that badly is reported by the judge below): only the outcome clauses are planted
        ctx.note("no loadable container event in the first part: container clauses of the self-check skipped")
    died_events = [json.loads(l) for l in subprocess.run([binp, "died-events"], stdout=subprocess.PIPE, text=True, check=True,
                                                        env=dict(os.environ, VERIF_REPO=vlib.REPO)).stdout.splitlines() if l.startswith("{")]
    if len(died_events) != 8 or not any(e["ev"] == "Container" for e in died_events):
        raise vlib.ToolError("c01_faults died-events printed %d events" % len(died_events))
    planted, expect = _planted(base, any_ev, died_events)
    pp = ctx.path("planted.ndjson")
    vlib.write_ndjson(pp, planted + [any_ev])
    all_parts = parts + [rtrace, pp]
    total, mism = _judge(ctx, all_parts, "judge", pool=8)
    th.join()
    want_total = n_events + rep0["events"] + len(planted) + 1
    ctx.note("judge: %d events, %d non-conforming" % (total, len(mism)))
    # failures of the tool itself are collected and raised after the violations are known: a violation that was found is
    # reported (exit 1) even when a later stage fails
    tool_errors = []
    if total != want_total:
        tool_errors.append("judge consumed %d events, expected %d" % (total, want_total))

    seen = {}
    by_key, counts = {}, collections.Counter()
    for m in mism:
        if m["case"].startswith("selftest-"):
            seen[m["case"]] = m["fails"]
            continue
        for k in _keys(m):
            counts[k] += 1
            cur = by_key.get(k)
            # smallest reproduction per key: fewest faults, then a bare sfnt, then the shortest name
            rank = (len(_min_faults(m["a"])), 0 if "#" not in m["a"]["input"] and "(" not in m["a"]["input"] else 1, len(m["a"]["input"]))
            if cur is None or rank < cur[0]:
                by_key[k] = (rank, m)
    for name, clause in expect.items():
        if clause not in seen.get(name, []):
            tool_errors.append("binding self-check failed: planted event %s was not rejected for %s (got %s)" % (name, clause, seen.get(name)))
    for m in mism:
        if m["case"].startswith("selftest-died-"):
            ks = _keys(m)
            want = "%s|%s|wOF2" % (m["o"]["oc"], m["a"]["g"])
            if ks != [want]:
                tool_errors.append("binding self-check failed: planted dead-process event %s gives keys %s, expected %s" % (m["case"], ks, want))
    tool = [k for k in by_key if k.startswith("TOOL|")]
    if tool:
        tool_errors.append("events outside the alphabet of FaultModel / malformed views: %s %s" % (tool, vlib.short(by_key[tool[0]][1], 500)))
        for k in tool:
            del by_key[k]

    violations = []
    for k, (_, m) in sorted(by_key.items()):
        d = dict(m)
        d["occurrences_in_this_run"] = counts[k]
        d["replay"] = {"input": m["a"]["input"], "g": m["a"]["g"], "tier": ctx.tier, "seed": ctx.seed}
        violations.append(Violation(k, _what(m, k), d))

    # vacuity (a tool error only when nothing else is reported: on a tree broken so badly that nothing loads the
    # violations above are the message)
    missing = [r for r in ("count", "offset", "length", "version", "index", "value") if not counters["faults_per_role"].get(r)]
    missing += [v for v in ("zero", "one", "max", "max-1", "hi7f", "hi80", "inc", "dec", "dbl", "half", "filelen", "tablelen", "self", "parent") + REL_PREV + REL_NEXT + DER + BITS
                if not counters["faults_per_value_class"].get(v)]
    # per table kind x role: a table kind in which the walk finds count / offset / index / length / version fields but
    # none of them was overwritten in this run; the table kinds the brief names must be there at all
    got_tr = counters["overwrites_per_table_kind_and_role"]
    for t, roles in sorted(rep.get("struct_fields_per_table_role", {}).items()):
        for r in ("count", "offset", "index", "length", "version"):
            if roles.get(r) and not got_tr.get(t, {}).get(r):
                missing.append("table %s role %s" % (t, r))
    for t, rs in REQUIRED_TABLE_KINDS.items():
        for r in rs:
            if not got_tr.get(t, {}).get(r):
                missing.append("table %s role %s (required)" % (t, r))
    # reference classes: every kind of field that carries a reference was overwritten with it; the kinds that close
    # the cycles recursion limits exist for must be among them
    got_ref = counters["reference_class_overwrites_per_field_kind"]
    for k in sorted(rep.get("ref_fields", {})):
        if not got_ref.get(k):
            missing.append("reference class on " + k)
    for pat in REQUIRED_REF_KINDS:
        if not any(re.search(pat, k) for k in got_ref):
            missing.append("reference class on a field matching " + pat)
    # relational classes: every (table kind, class) the plan instantiates with an effect on the bytes (harness counter, computed
    # from the plan and the input bytes) was applied in the recorded events; the table kinds whose arrays the brief names must
    # have array elements on both sides and every class planned with an effect
    got_rel = counters["relational_class_overwrites_per_table_kind"]
    plan_rel = rep.get("planned_effective_relational_overwrites_per_table_kind", {})
    rel_fields = rep.get("rel_fields_per_table_kind", {})
    for t, cs in sorted(plan_rel.items()):
        for vc, n in sorted(cs.items()):
            if n and not got_rel.get(t, {}).get(vc):
                missing.append("relational class %s on table kind %s (planned %d)" % (vc, t, n))
    for t in REQUIRED_REL_KINDS:
        if not rel_fields.get(t, {}).get("prev") or not rel_fields.get(t, {}).get("next"):
            missing.append("array elements in table kind %s (required)" % t)
        for vc in REL_PREV + REL_NEXT:
            if not plan_rel.get(t, {}).get(vc):
                missing.append("relational class %s on table kind %s (required)" % (vc, t))
    # derived classes: every (table kind, class) the plan instantiates with an effect on the bytes was applied; the table kinds
    # whose size / count fields the walk knows an implied value for must be there with both classes
    got_der = counters["derived_class_overwrites_per_table_kind"]
    plan_der = rep.get("planned_effective_derived_overwrites_per_table_kind", {})
    for t, cs in sorted(plan_der.items()):
        for vc, n in sorted(cs.items()):
            if n and not got_der.get(t, {}).get(vc):
                missing.append("derived class %s on table kind %s (planned %d)" % (vc, t, n))
    for t in REQUIRED_DER_KINDS:
        for vc in DER:
            if not plan_der.get(t, {}).get(vc):
                missing.append("derived class %s on table kind %s (required)" % (vc, t))
    # the sub-formats the synthesized champions exist for: a field of each was overwritten
    got_fk = counters["overwritten_field_kinds"]
    for pat in REQUIRED_FIELD_KINDS:
        if not any(re.search(pat, k) for k in got_fk):
            missing.append("a field matching " + pat)
    for name in rep.get("synthesized_inputs", {}):
        if name not in counters.get("input_names", []):
            missing.append("synthesized input " + name)
    content = rep.get("input_content_classes", {})
    for k, v in REQUIRED_CONTENT:
        if not any(c.get(k) == v and name in counters.get("input_names", []) for name, c in content.items()):
            missing.append("an input of content class %s = %d" % (k, v))
    missing += [k for k in ("Overwrite", "Truncate", "RemoveTable", "ShrinkLength", "SwapTables") if not counters["faults_per_kind"].get(k)]
    vac = None
    if missing:
        vac = "vacuous fault model: no fault instantiated for %s" % missing
    elif not sum(counters["ok_to_err_per_group"].values()):
        vac = "vacuous fault model: no fault turned an Ok outcome into Err"
    if vac:
        tool_errors.append(vac)
    if tool_errors:
        known = vlib.load_known(ctx.prop)
        if all(v.key in known for v in violations):
            raise vlib.ToolError("; ".join(tool_errors))
        for t in tool_errors:
            ctx.note("TOOL PROBLEM (the reported violations take precedence): " + t)
    silent = [g for g in counters["outcomes_per_group"] if not counters["more_failing_calls_than_on_intact_per_group"].get(g)]
    coverage = {
        "evaluations": n_events,
        "distinct_nontrivial": counters["fault_sequences_noticed"],
        "rule": "an evaluation is one (input, concrete fault sequence, entry point group) event; abstract fault sequences are "
                "enumerated by TLC (MC_FaultModel, config %s) and instantiated by the deterministic plan of c01_faults.rs: every "
                "directory / header field of every input x every value class, structural faults on the directory records, "
                "table-level fields (quick: every structural non-value field of the champion inputs x every class and every array "
                "element of theirs x every relational class - a cover of all kinds of field per table kind plus every variable "
                "font - and seeded picks per role x class elsewhere; thorough: every structural field plus a sample of the "
                "hook-discovered ones; relational classes only where the walk knows the sibling, on directory records a seeded "
                "sample per input), seeded pairs (thorough: triples); a case = (input, concrete fault sequence); it is "
                "non-trivial when at least one group answered differently from its baseline on the intact input (outcome or "
                "number of calls that returned a value / an error), i.e. allsorts noticed the fault; sequences that leave the "
                "bytes unchanged are not run" % cfg,
        "samples": counters["samples"] + ([{"container_event": {k: base["a"][k] for k in ("input", "faults", "g")},
                                            "facts": base["o"]["facts"]}] if base else []),
        "states": mc.distinct,
        "transitions": mc.generated,
        "traces_validated_against_impl": n_events + rep0["events"],
        "abstract_fault_sequences": len(gen),
        "model_file_cases_replayed": rep0["file_cases"],
        "value_class_vectors_replayed": rep0["val_cases"],
        "harness_counters": rep,
        "non_conforming_events": len(mism) - len(seen),
        "distinct_violation_keys": len(by_key),
        "groups_where_no_fault_made_more_calls_fail": sorted(silent),
        "binding_selfcheck": "%d planted events rejected, each for its own clause (corrupted copies of recorded events; the dead-process "
                             "events of the supervisor for OOM / StackOverflow / Timeout / Abort in the container group and in another "
                             "group, each with its stable key); " % len(planted) +
                             "value classes, fault application and view cutting replayed against MC_FaultModel with 0 mismatches",
        "exhaustive": False,
        "explanation": "fault sequences are enumerated exhaustively at the abstract level (kind, role, value class, level) up to "
                       "length 2 (3 on directory fields, thorough); their instantiation on concrete fields is exhaustive for "
                       "directory / header fields, for the structural non-value fields of the champion inputs (quick) or of all inputs "
                       "(thorough), and sampled by seed elsewhere",
    }
    for k in ("fault_sequences_run", "inputs", "faults_per_role", "faults_per_value_class", "faults_per_kind", "faults_per_level",
              "sequences_per_length", "outcomes_per_group", "ok_to_err_per_group", "more_failing_calls_than_on_intact_per_group",
              "flaky_events", "overwrites_per_table_kind_and_role", "reference_class_overwrites_per_field_kind",
              "relational_class_overwrites_per_table_kind", "relational_overwrites_noticed_per_table_kind", "process_deaths_per_group",
              "derived_class_overwrites_per_table_kind"):
        coverage[k] = counters[k]
    vlib.finish(ctx, LEVEL, coverage, violations, ASSUMPTIONS)


def replay(ctx, path):
    d = json.load(open(path))["detail"]
    binp = vlib.build_harness("c01_faults")
    a = d["a"]
    fs = _min_faults(a)
    spec = {"input": a["input"], "g": a["g"], "tier": d.get("replay", {}).get("tier", "thorough"),
            "seed": d.get("replay", {}).get("seed", ctx.seed), "faults": fs, "nf": len(fs), "patches": a.get("patches") or d.get("patches") or []}
    if not spec["patches"] and fs:
        # rebuild the byte patches from the fault descriptions (overwrites and truncations carry everything needed)
        for f in fs:
            if f[0] == "Overwrite" and f[9]:
                spec["patches"].append(["patch", f[6], f[9]])
            elif f[0] == "Truncate":
                spec["patches"].append(["trunc", f[6], ""])
            elif f[0] == "ShrinkLength" and f[9]:
                spec["patches"].append(["patch", f[6], f[9]])
    env = dict(os.environ, VERIF_REPO=vlib.REPO)
    p = subprocess.run([binp, "exec", json.dumps(spec)], cwd=vlib.VERIF, env=env, stdout=subprocess.PIPE, stderr=subprocess.PIPE,
                       text=True, timeout=600)
    lines = [l for l in p.stdout.splitlines() if l.startswith("{")]
    if p.returncode != 0 or not lines:
        why = [l.strip() for l in p.stderr.splitlines()
               if "memory allocation of" in l or "overflowed its stack" in l or l.startswith("TIMEOUT") or "harness panic" in l]
        print("REPRODUCED key=%s (process died, exit %s): %s" % (json.load(open(path))["key"], p.returncode,
                                                              why[0] if why else p.stderr[-300:].replace("\n", " / ")))
        return 1
    ev = json.loads(lines[-1])
    trace = ctx.path("one.ndjson")
    vlib.write_ndjson(trace, [ev])
    _, mism = _judge(ctx, [trace], "replayjudge", pool=1)
    for m in mism:
        for k in _keys(m):
            print("REPRODUCED key=%s %s" % (k, _what(m, k)))
    if not mism:
        print("not reproduced: %s" % vlib.short(ev["o"], 600))
    return 1 if mism else 0
