"""C11 - WOFF2 decoding reconstructs the original font.

spec -> impl : TLC checks the WOFF2 rules of specs/Woff2.tla on themselves (Decode o Encode identities for
               UIntBase128, 255UInt16 with every alternative encoding, the rule-derived 128-entry triplet
               table, the transformed-glyf stream machine with its cursor discipline, the transformed hmtx,
               table and collection directories) and prints CASE lines: byte vectors and abstract glyph
               sets x encoder choices with the reconstruction the specification prescribes. The harness
               concretises every case with its own WOFF2 encoder (checked byte-for-byte against the
               specification's encoder) and compares what allsorts decodes by JSON equality.
               Size boundaries of the decoder are generated as families of their own: every glyph count
               1..130 and glyph counts around the 32-glyph bboxBitmap word with explicit bounding boxes in
               the first / last word / nowhere, contour sizes / instruction lengths / collection counts at the
               255UInt16 code boundaries, glyphs of up to 300 contours, a rebuilt glyf of 131068 / 131070 /
               131072 bytes (loca short -> long), table lengths at the UIntBase128 byte boundaries.
               Composite glyphs of 1..3 components are generated with the POSITION of every per-component
               property varied (family cp): WE_HAVE_INSTRUCTIONS on every subset of the components, argument
               width / signedness and transform kind per position, the other flag bits rotating.
impl -> spec : repository fonts re-encoded by the harness encoder with seeded encoder choices (single fonts
               and collections with shared tables), the repository's own .woff2 files and random varint
               byte strings are decoded by allsorts; the recorded events are judged by Trace_Woff2.
"""
import concurrent.futures
import json
import os
import re

import vlib
from vlib import Violation

LEVEL = "model_checking"
BIN = "c11_woff2"

ASSUMPTIONS = [
    "the WOFF2 encoder is the harness's own (conforming by construction against the same text of the "
    "recommendation as specs/Woff2.tla; on every generated case its transformed glyf/hmtx bytes are compared "
    "byte-for-byte with the ones the TLA+ encoder computes); Google's / fonttools' encoders are represented "
    "only by the repository's six .woff2 files",
    "brotli streams consist of stored (uncompressed) meta-blocks; the brotli-decompressor crate is trusted",
    "glyphs are compared in the vocabulary of the property (contours, points, on-curve, instructions, bbox, "
    "components, advance, lsb); the OVERLAP_SIMPLE point flag and the reserved bits 4/13/14/15 of component "
    "flags are not compared (Dev_MaskCompFlags)",
    "head may differ from the encoder's input in checkSumAdjustment and indexToLocFormat (Dev_HeadDiffAllowed); "
    "trailing bytes of a rebuilt hmtx/loca beyond the entries the font declares are not examined",
    "hmtx transform is exercised only together with the glyf transform (the combination hmtx-transformed + "
    "glyf null transform reaches unreachable!() in allsorts and is left to C01 as unusual input)",
    "for the repository .woff2 files the transformed tables are taken from allsorts' own brotli output "
    "(Woff2Font::table_data_block)",
]

U16_BOUNDS = [252, 253, 505, 506, 508, 509, 761, 762]
# boundary counters (measured by the harness on the bytes it encoded) that must be non-zero in every run
BOUNDARIES_NEEDED = (
    ["bitmap.n=%s%s" % (c, k) for c in ("32k", "32k+1", "32k-1")
     for k in ("", ".no_explicit_bbox", ".explicit_in_first_word", ".explicit_in_last_word", ".explicit_composite",
               ".explicit_simple_not_tight")]
    + ["bitmap.n=32k.explicit_at_word_edge", "bitmap.n=32k+1.explicit_at_word_edge"]
    + ["u16.contour_points=%d" % b for b in U16_BOUNDS]
    + ["u16.simple_instructions=%d" % b for b in U16_BOUNDS]
    + ["u16.composite_instructions=%d" % b for b in U16_BOUNDS]
    + ["u16.collection_font_tables=%d" % b for b in U16_BOUNDS]
    + ["u16.collection_fonts=%d" % b for b in (252, 253, 506)]
    + ["u16.instructions>65000"]
    + ["contours=%d" % b for b in (127, 128, 255, 256)] + ["contours>256"]
    + ["loca.plain_glyf=131070", "loca.plain_glyf>131070", "loca.plain_glyf>131070.source_short",
       "loca.plain_glyf_over_131000.source_short", "loca.plain_glyf_over_131000.source_long"]
    + ["dir.table_length=%d" % b for b in (13, 127, 128, 16383, 16384)]
    + ["hmtx.n>=31.nhm=n", "hmtx.n>=31.nhm=1", "hmtx.n>=31.nhm=n-1", "hmtx.n>=31.nhm=32"]
)

# composite position counters (measured by the harness on the generated glyph sets) that must be non-zero
_MASKS = {1: ["none", "1"], 2: ["none", "1", "2", "1+2"], 3: ["none", "1", "2", "3", "1+2", "1+3", "2+3", "1+2+3"]}
COMPOSITES_NEEDED = (
    ["k=%d.instr_at=%s" % (k, m) for k in (1, 2, 3) for m in _MASKS[k]]
    + ["k=%d.more_components_consistent" % k for k in (1, 2, 3)]
    + ["pos%dof%d.args=%s_%s" % (j, k, w, x) for k in (1, 2, 3) for j in range(1, k + 1) for w in ("bytes", "words") for x in ("pt", "xy")]
    + ["pos%dof%d.tr=%s" % (j, k, t) for k in (1, 2, 3) for j in range(1, k + 1) for t in ("none", "scale", "xy", "2x2")]
    + ["pos%dof%d.bit%d" % (j, k, b) for k in (1, 2, 3) for j in range(1, k + 1) for b in (2, 9, 10, 11, 12)]
    + ["instr_flag_not_on_last", "hinted_with_zero_instructions", "followed_by_simple_with_instructions", "followed_by_composite"]
)

# container-level features (measured by the harness on what it encoded) that must be non-zero in every run
FEATURES_NEEDED = [
    "coll.members_differ_in_numGlyphs", "coll.members_differ_in_bitmap_words", "coll.members_differ_in_numberOfHMetrics",
    "coll.members_differ_in_loca_format", "coll.mixed_transform.first_transformed", "coll.mixed_transform.first_null",
    "coll.members_differ_in_hmtx_transform", "coll.three_members", "coll.glyf_shared",
    "coll.glyf_shared_by_first_and_third_only", "coll.first_member_glyf_not_first_in_directory",
    "overlap.bitmap_present", "overlap.bits_set", "overlap.length_differs_from_bbox_bitmap",
    "tags.transformed_glyf_spelled_out", "tags.transformed_hmtx_spelled_out",
    "ext.coordinate=32767", "ext.coordinate=-32768", "ext.delta=32767", "ext.delta=-32768", "ext.component_gid=65535",
    "ext.component_arg=-32768", "ext.component_arg=32767", "ext.component_arg=65535", "ext.component_arg=-128",
    "ext.component_arg=127", "ext.component_arg=255", "ext.component_scale=both_ends", "ext.elided_lsb=-32768",
    "ext.advance=65535", "meta.blocks=1", "meta.blocks=2", "dir.all_known_tags_by_index", "dir.all_known_tags_spelled_out",
]

FAMILY = [(10, "y8"), (20, "x8"), (84, "4x4"), (120, "8x8"), (124, "12x12"), (128, "16x16")]


def _family(entry):
    for hi, name in FAMILY:
        if entry < hi:
            return name
    return "?"


def _errkey(e):
    """Stable class of an error string produced by the harness (panic keys are already stable)."""
    e = re.sub(r"\d+", "N", e) if not e.startswith("Panic:") else e
    return e.replace(" ", "_")[:120]


def _xmin(g):
    return 0 if g["kind"] == "empty" else g["bbox"][0]


def _glyph_diff(w, g):
    if g.get("kind") == "unreadable":
        return "Glyph:%s:unreadable" % w["kind"]
    for f, name in (("kind", "kind"), ("ends", "ends"), ("pts", "points"), ("instr", "instructions"),
                    ("bbox", "bbox"), ("comps", "components")):
        if w.get(f) != g.get(f):
            return "Glyph:%s:%s" % (w["kind"], name)
    return None


def _font_keys(want, got):
    """Keys (same vocabulary as Trace_Woff2) describing how a decoded generated font differs."""
    if not got.get("ok"):
        return ["Decode:" + _errkey(got.get("err", ""))]
    keys = set()
    for t in got.get("diff", []):
        keys.add("Table:" + t.split(":", 1)[1])
    if len(got["fonts"]) != len(want["fonts"]):
        keys.add("Decode:font-count")
    for wf, gf in zip(want["fonts"], got["fonts"]):
        if len(wf["glyphs"]) != len(gf["glyphs"]):
            keys.add("GlyfSum:numGlyphs")
        for a, b in zip(wf["glyphs"], gf["glyphs"]):
            d = _glyph_diff(a, b)
            if d:
                keys.add(d)
        nhm = wf["nhm"]
        if gf["nhm"] != nhm or not isinstance(gf["adv"], list) or len(gf["lsb"]) != len(wf["lsb"]):
            keys.add("Hmtx:unreadable")
            continue
        if gf["adv"] != wf["adv"]:
            keys.add("Hmtx:advance")
        bad = [g for g in range(len(wf["lsb"])) if wf["lsb"][g] != gf["lsb"][g]]
        if bad:
            xm = [_xmin(g) for g in wf["glyphs"]]
            if any(g < nhm for g in bad):
                keys.add("Hmtx:lsb.head")
            elif all(gf["lsb"][g] == xm[g - nhm] for g in bad):
                keys.add("Hmtx:lsb.tail.shifted")
            else:
                keys.add("Hmtx:lsb.tail")
    return sorted(keys) or ["font:differs"]


def _gen_key(m):
    k, want, got = m["kind"], m["want"], m["got"]
    if k in ("b128", "u255"):
        name = "B128" if k == "b128" else "U255"
        return "%s:%s%s" % (name, "value" if want["ok"] else "reject", ":panic" if "panic" in got else "")
    if k == "trip":
        if "err" in got:
            return "Decode:" + _errkey(got["err"])
        fam = _family(m["sub"]["entry"])
        wrong = [f for f in ("x", "y", "on") if got.get(f) != want.get(f)] if "x" in got else ["glyph"]
        return "Triplet:%s:%s" % (fam, ",".join(wrong))
    if k == "font":
        return "+".join(_font_keys(want, got))
    if k == "dir":
        if "err" in got:
            return "Dir:error"
        return "Dir:entries" if got.get("entries") != want.get("entries") else "Dir:collection"
    return k + ":differs"


def _gen_violation(m):
    detail = {"source": "generated", "kind": m["kind"], "id": m["id"], "sub": m["sub"], "want": m["want"],
              "got": m["got"], "case": m.get("case")}
    if "woff2" in m and len(m["woff2"]) < 40000:
        detail["woff2_hex"] = m["woff2"]
    return Violation(_gen_key(m), "generated %s %s: want %s got %s" % (
        m["kind"], vlib.short(m["id"], 80), vlib.short(_brief(m["want"]), 160), vlib.short(_brief(m["got"]), 200)), detail)


def _brief(x):
    if isinstance(x, dict) and "fonts" in x:
        return {"ok": x.get("ok"), "diff": x.get("diff"),
                "fonts": [{"nhm": f.get("nhm"), "adv": f.get("adv"), "lsb": f.get("lsb"), "glyphs": len(f.get("glyphs", []))} for f in x["fonts"]]}
    return x


def _judge_parallel(ctx, trace, tag, parts):
    files = vlib.split_trace(trace, parts)
    total, printed = 0, {}

    def one(kf):
        k, f = kf
        return vlib.judge_trace(ctx, "Trace_Woff2", "Trace_Woff2.cfg", f, "%s.%d" % (tag, k), timeout=1500, xmx="3g")
    with concurrent.futures.ThreadPoolExecutor(max_workers=len(files)) as ex:
        for res, _mm in ex.map(one, list(enumerate(files))):
            total += res.distinct - 1
            for t, vals in res.printed.items():
                printed.setdefault(t, []).extend(vals)
    return total, printed


def _run_mc(ctx, binp):
    cfg = "MC_Woff2_quick.cfg" if ctx.quick else "MC_Woff2_thorough.cfg"
    cases_path = ctx.path("cases.ndjson")
    n_cases = [0]
    samples = {}
    with open(cases_path, "w") as fc:
        def sink(tag, payload):
            if tag == "CASE":
                fc.write(payload + "\n")
                n_cases[0] += 1
                m = re.match(r'\{"kind":"(\w+)"', payload)
                kind = m.group(1) if m else "?"
                if kind not in samples and len(payload) < 6000:
                    samples[kind] = payload
        mc = vlib.run_tlc(ctx, "MC_Woff2", cfg, "mc", workers=4, timeout=1500 if ctx.quick else 3000, sink=sink)
    ctx.note("MC_Woff2 (%s): %d states generated, %d distinct, %d cases, lemmas hold (%.1fs)" %
             (cfg, mc.generated, mc.distinct, n_cases[0], mc.wall))
    if n_cases[0] == 0:
        raise vlib.ToolError("no CASE lines generated")
    return mc, cases_path, n_cases[0], samples


def run(ctx):
    """Violations take precedence over tool problems: whatever was found before a later stage (vacuity guard,
    self-check, judge) failed is reported (exit 1); a tool error (exit 2) is raised only when there is nothing
    new to report."""
    violations, cov = [], {}
    try:
        _run(ctx, violations, cov)
    except Exception as e:        # ToolError, or a driver exception on output it did not expect
        known = vlib.load_known(ctx.prop)
        if not any(v.key not in known for v in violations):
            raise
        ctx.note("a later stage failed after violations had been found; reporting the violations. Tool problem: %s" % str(e)[:1500])
        cov.setdefault("states", 0)
        cov.setdefault("transitions", 0)
        cov.setdefault("traces_validated_against_impl", 0)
        cov.setdefault("samples", [])
        cov["incomplete_run"] = str(e)[:500]
    vlib.finish(ctx, LEVEL, cov, violations, ASSUMPTIONS)


def _run(ctx, violations, cov):
    binp = vlib.build_harness(BIN)
    mc, cases_path, n_cases, samples = _run_mc(ctx, binp)
    cov.update({"states": mc.distinct, "tlc_states_generated": mc.generated})

    # ---- spec -> impl
    mism_path = ctx.path("mismatches.ndjson")
    rep = vlib.run_harness(binp, ["replay", cases_path, mism_path])
    ctx.note("replay: %s" % json.dumps({k: rep[k] for k in ("cases", "vectors", "mismatches", "triplet_entries_exercised",
                                                              "u255_first_bytes_exercised")}))
    # what replay found is recorded first: it is reported even if a guard, a self-check or the judge fails later
    gen_mism = vlib.read_ndjson(mism_path)
    for m in gen_mism:
        violations.append(_gen_violation(m))
    cov.update({"generated_cases": rep["cases"], "generated_mismatches": len(gen_mism),
                "transitions": rep["vectors"].get("b128", 0) + rep["vectors"].get("u255", 0) + rep["vectors"].get("trip", 0)
                               + rep["cases"].get("font", 0) + rep["cases"].get("dir", 0),
                "traces_validated_against_impl": n_cases, "samples": [json.loads(samples[k]) for k in sorted(samples)][:3]})
    if rep["encoder_disagreements"]:
        raise vlib.ToolError("the harness encoder and the TLA+ encoder disagree: %s" % vlib.short(rep["encoder_disagreements"][0], 1500))
    # vacuity guards
    if rep["triplet_entries_exercised"] != 128 or rep["u255_first_bytes_exercised"] != 256:
        raise vlib.ToolError("vacuous vectors: %s triplet entries, %s first bytes" % (rep["triplet_entries_exercised"], rep["u255_first_bytes_exercised"]))
    needed = ["glyf=0", "glyf=3", "hmtx=0", "hmtx=1", "hmtx=2", "hmtx=3", "nhm<n=true", "coll=single", "coll=same", "coll=hm", "coll=other",
              "coll=sub", "coll=tri", "coll=mixt", "tags=explicitall", "meta=0", "meta=1", "meta=2", "overlap=0", "overlap=1",
              "trip=ref", "trip=min", "trip=max", "trip=alt", "u16=short", "u16=word", "u16=alt", "bbox=needed", "bbox=all",
              "order=asis", "order=bytag", "order=reverse", "tags=known", "tags=explicit"]
    missing = [k for k in needed if not rep["choices"].get(k)]
    kinds_needed = ["empty", "simple", "simple+instr", "simple+instr+bbox", "composite", "composite+instr"]
    missing += [k for k in kinds_needed if not rep["glyph_kinds"].get(k)]
    # size-boundary families: every edge must have been sat on, every glyph count 1..130 decoded, the length
    # rule of the bboxBitmap checked by TLC for n = 0 too
    bnd = rep.get("boundaries", {})
    missing += [k for k in BOUNDARIES_NEEDED if not bnd.get(k)]
    missing += ["glyph count %d" % n for n in range(1, 131) if n not in rep.get("glyph_counts_transformed", [])]
    if not rep.get("lemma_cases"):
        missing.append("bitmap lemma for n = 0")
    # composite glyphs: every subset of 1..k components carrying WE_HAVE_INSTRUCTIONS, every argument mode, transform
    # kind and flag bit at every position of composites of 1, 2 and 3 components
    comp = rep.get("composites", {})
    missing += ["composite " + k for k in COMPOSITES_NEEDED if not comp.get(k)]
    feat = rep.get("features", {})
    missing += ["feature " + k for k in FEATURES_NEEDED if not feat.get(k)]
    if missing:
        raise vlib.ToolError("vacuous generator: no case with %s" % missing)
    # the loca counters above are predicted from the input; when the loca family decodes without any mismatch the
    # OBSERVED rebuilt glyf must have landed on both sides of the limit too (else the prediction has drifted)
    loca_mism = [m for m in vlib.read_ndjson(mism_path) if m["kind"] == "font" and m["id"] and m["id"][0] == "loca"]
    if not loca_mism and not (bnd.get("loca.source_short.rebuilt_long") and bnd.get("loca.rebuilt_glyf=131070") and bnd.get("loca.rebuilt_glyf>131070")):
        raise vlib.ToolError("loca boundary family decodes cleanly but the rebuilt glyf did not reach 131070 / cross it: %s" %
                             {k: v for k, v in bnd.items() if k.startswith("loca.")})
    ctx.note("boundaries: %s" % json.dumps({k: bnd[k] for k in sorted(bnd) if k.startswith(("bitmap.n=32k", "loca."))}))
    ctx.note("features: %s" % json.dumps(feat, sort_keys=True))
    ctx.note("composites: %s" % json.dumps({k: comp[k] for k in sorted(comp) if ".instr_at=" in k or "." not in k}))

    # binding self-check 1: corrupted expectations must be reported by replay, a corrupted stream by the
    # encoder cross-check
    # (the carrier is a case that does not mismatch on this tree when there is one within the first candidates;
    # a carrier that already mismatches is still usable unless it does not decode at all)
    planted, first_cand, seen_cand = None, None, 0
    mism_ids = {json.dumps(m["id"]) for m in gen_mism}
    with open(cases_path) as f:
        for ln in f:
            if '"kind":"font"' in ln[:400]:
                c = json.loads(ln)
                g = c["fonts"][0]["glyphs"]
                if c["ch"]["glyf"] == 0 and len(g) >= 2 and g[1]["kind"] == "simple":
                    first_cand = first_cand or c
                    seen_cand += 1
                    if json.dumps(c["id"]) not in mism_ids:
                        planted = c
                        break
                    if seen_cand >= 400:
                        break
    planted = planted or first_cand
    if planted is None:
        raise vlib.ToolError("no font case to corrupt for the binding self-check")
    bad_pts = json.loads(json.dumps(planted))
    bad_pts["exp_fonts"] = json.loads(json.dumps(planted["fonts"]))
    bad_pts["exp_fonts"][0]["glyphs"][1]["pts"][0][0] += 1
    bad_lsb = json.loads(json.dumps(planted))
    bad_lsb["exp_fonts"] = json.loads(json.dumps(planted["fonts"]))
    bad_lsb["exp_fonts"][0]["lsb"][-1] += 1
    bad_stream = json.loads(json.dumps(planted))
    bad_stream["xglyf"][0][-1] ^= 1
    bad_vec = {"kind": "u255", "id": ["selftest"], "vec": [{"b": [254, 0], "exp": {"ok": True, "v": 505, "used": 2}}]}
    # ... and of the boundary family: a font of 32 k glyphs whose LAST glyph carries an explicit bounding box,
    # expectation corrupted in that box (an impossible value)
    # (a case that already mismatches on this tree cannot carry the plant: prefer a clean 32 k case, fall back
    # to a clean neighbour 32 k +- 1; when the whole family fails the plant is skipped - the failures are reported)
    bad_box, fallback = None, None
    with open(cases_path) as f:
        for ln in f:
            if '"kind":"font"' in ln[:400] and '"ng"' in ln[:400]:
                c = json.loads(ln)
                g = c["fonts"][0]["glyphs"]
                if g[-1]["kind"] in ("composite", "simple") and c["ch"]["coll"] == "single" and json.dumps(c["id"]) not in mism_ids:
                    if len(g) % 32 == 0:
                        bad_box = c
                        break
                    fallback = fallback or c
    bad_box = bad_box or fallback
    if bad_box is None:
        if not any(m["kind"] == "font" and m["id"] and m["id"][0] == "ng" for m in gen_mism):
            raise vlib.ToolError("no glyph-count boundary case to corrupt for the binding self-check")
        ctx.note("binding self-check: every glyph-count boundary case with an explicit last bbox already mismatches; plant skipped")
    else:
        bad_box["exp_fonts"] = json.loads(json.dumps(bad_box["fonts"]))
        bad_box["exp_fonts"][0]["glyphs"][-1]["bbox"][3] = 32767
    # ... and of the composite-position family: a composite whose WE_HAVE_INSTRUCTIONS bit sits on a component
    # other than the last, expectation corrupted in its instructions (a clean case carries the plant; when the whole
    # family fails the plant is skipped - the failures are reported)
    bad_cp, cp_at = None, None
    with open(cases_path) as f:
        for ln in f:
            if '"kind":"font"' in ln[:400] and '"cp"' in ln[:400]:
                c = json.loads(ln)
                if json.dumps(c["id"]) in mism_ids:
                    continue
                for gi, g in enumerate(c["fonts"][0]["glyphs"]):
                    if g["kind"] == "composite" and g["instr"] and len(g["comps"]) >= 2 and not (g["comps"][-1]["flags"] & 0x100) \
                            and any(cc["flags"] & 0x100 for cc in g["comps"]):
                        bad_cp, cp_at = c, gi
                        break
                if bad_cp:
                    break
    if bad_cp is None:
        if not any(m["kind"] == "font" and m["id"] and m["id"][0] == "cp" for m in gen_mism):
            raise vlib.ToolError("no composite-position case to corrupt for the binding self-check")
        ctx.note("binding self-check: every composite-position case with the instruction flag before the last component "
                 "already mismatches; plant skipped")
    else:
        bad_cp["exp_fonts"] = json.loads(json.dumps(bad_cp["fonts"]))
        bad_cp["exp_fonts"][0]["glyphs"][cp_at]["instr"][-1] ^= 1
    sp, sm = ctx.path("selftest_case.ndjson"), ctx.path("selftest_mism.ndjson")
    vlib.write_ndjson(sp, [planted, bad_pts, bad_lsb, bad_stream, bad_vec] + ([bad_box] if bad_box else []) + ([bad_cp] if bad_cp else []))
    srep = vlib.run_harness(binp, ["replay", sp, sm])
    got_keys = sorted(_gen_key(m) for m in vlib.read_ndjson(sm))
    base_keys = sorted(_gen_key(m) for m in gen_mism if m["id"] == planted["id"])
    extra = list(got_keys)
    for k in base_keys * 4:
        if k in extra:
            extra.remove(k)
    undecodable = any(k.startswith("Decode:") for k in base_keys)
    if undecodable:
        # the carrier does not decode on this tree (reported as a violation below): corrupted expectations cannot
        # be told apart from it; the vector and encoder cross-check plants still have to be seen
        ctx.note("binding self-check: the carrier font case does not decode on this tree (%s); font-level plants skipped" % base_keys)
    if (not undecodable and (not any("Glyph:simple:points" in k for k in extra) or not any("Hmtx:lsb" in k for k in extra))) \
            or "U255:value" not in extra or len(srep["encoder_disagreements"]) != 1 \
            or (bad_box and not any(re.search(r"Glyph:(simple|composite):bbox", k) for k in extra)) \
            or (bad_cp and not any("Glyph:composite:instructions" in k for k in extra)):
        raise vlib.ToolError("binding self-check failed: corrupted cases not all reported (keys %s, encoder cross-check %d)" %
                             (extra, len(srep["encoder_disagreements"])))

    # ---- impl -> spec
    trace = ctx.path("trace.ndjson")
    rec = vlib.run_harness(binp, ["record", ctx.seed, ctx.tier, trace], timeout=1500)
    ctx.note("record: %s" % json.dumps({"events": rec["events"], "by_kind": rec["by_kind"], "fonts": rec["fonts_selected"]}))
    # events that exist only for fonts allsorts managed to decode may be missing when (and only when) decoding
    # failed: every failure is a Decode event the judge reports, so that is a violation, not a vacuous run
    failures = rec["tally"].get("decode_failures", 0)
    hard = ["no %s event recorded" % k for k in ("Dir", "Decode", "B128", "U255") if not rec["by_kind"].get(k)]
    hard += ["%s = 0" % k for k in ("collections", "fonts_glyf_null_transform", "fonts_elided_tail_lsb_with_nhm_lt_n")
             if not rec["tally"].get(k)]
    vac = ["no %s event recorded" % k for k in ("Glyph", "Hmtx", "Table", "GlyfSum", "GlyfTable") if not rec["by_kind"].get(k)]
    vac += ["%s = 0" % k for k in ("glyph_events_simple", "glyph_events_composite", "glyph_events_empty", "fixture_transformed_glyf_tables")
            if not rec["tally"].get(k)]
    if hard or (vac and not failures):
        raise vlib.ToolError("vacuous trace: %s" % "; ".join(hard + vac))
    if vac:
        ctx.note("trace lacks events of decoded fonts (%s) because %d decodings failed; the failures are judged" % ("; ".join(vac), failures))
    # size boundaries in the trace: fonts of more than 65000 glyphs, and - whenever the repository has a glyf font
    # whose glyph count is a multiple of 32 - such a font decoded through the glyf transform
    t = rec["tally"]
    if not t.get("synthetic_big_fonts") or not t.get("fonts_glyf_transformed_more_than_65000_glyphs"):
        raise vlib.ToolError("vacuous trace: no font of more than 65000 glyphs recorded")
    # synthetic random composites (counted on the generated glyphs, before anything is decoded)
    lack = [k for k in ("synthetic_composite_fonts", "synthetic_composites_hinted", "synthetic_composites_instr_flag_not_on_last",
                        "synthetic_composites_of_1_components", "synthetic_composites_of_2_components", "synthetic_composites_of_3_components")
            if not t.get(k)]
    if lack:
        raise vlib.ToolError("vacuous trace: %s = 0" % lack)
    if t.get("repository_glyf_fonts_with_glyph_count_multiple_of_32") and t.get("selected_glyph_count_multiple_of_32") \
            and not t.get("fonts_glyf_transformed_glyph_count_mod32_0_with_explicit_bbox"):
        raise vlib.ToolError("vacuous trace: no font with a glyph count that is a multiple of 32 went through the glyf transform")
    ctx.note("record: repository glyf fonts with numGlyphs %% 32 = 0: %d (selected %d), = 31: %d (selected %d), = 1: %d (selected %d)" % (
        t.get("repository_glyf_fonts_with_glyph_count_multiple_of_32", 0), t.get("selected_glyph_count_multiple_of_32", 0),
        t.get("repository_glyf_fonts_with_glyph_count_multiple_of_32_minus_1", 0), t.get("selected_glyph_count_multiple_of_32_minus_1", 0),
        t.get("repository_glyf_fonts_with_glyph_count_multiple_of_32_plus_1", 0), t.get("selected_glyph_count_multiple_of_32_plus_1", 0)))
    # binding self-check 2: corrupted copies of recorded events must be rejected by the judge
    plant = []
    want_kinds = {"Glyph": None, "Hmtx": None, "U255": None, "Dir": None}
    with open(trace) as f:
        for ln in f:
            e = json.loads(ln)
            k = e["ev"]
            if k in want_kinds and want_kinds[k] is None:
                if k == "Glyph" and e["o"]["rec"]["kind"] == "simple":
                    e["o"]["rec"]["pts"][0][1] += 1
                elif k == "Hmtx" and e["o"]["ok"] and e["a"]["orig_adv"]:
                    e["o"]["lsb"][0] += 1
                elif k == "U255" and e["o"]["ok"]:
                    e["o"]["v"] += 1
                elif k == "Dir" and e["o"]["ok"] and len(e["o"]["entries"]) > 1:
                    e["o"]["entries"][1][1] += 1
                else:
                    continue
                e["case"] = "selftest-corrupt"
                e["i"] = 10 ** 8 + len(plant)
                want_kinds[k] = True
                plant.append(e)
            if all(v for v in want_kinds.values()):
                break
    if len(plant) != len(want_kinds):
        lacking = [k for k, v in want_kinds.items() if v is None]
        if not failures or any(k in ("U255", "Dir") for k in lacking):
            raise vlib.ToolError("could not plant corrupted events of every kind: %s" % want_kinds)
        ctx.note("binding self-check: no %s event to corrupt (decoding failed %d times); the other plants are checked" % (lacking, failures))
        want_kinds = {k: v for k, v in want_kinds.items() if v}
    with open(trace, "a") as f:
        for e in plant:
            f.write(json.dumps(e, separators=(",", ":")) + "\n")
    total, printed = _judge_parallel(ctx, trace, "judge", parts=6 if ctx.quick else 12)
    mism = [json.loads(x) for x in printed.get("MISMATCH", [])]
    ctx.note("judge: %d events, %d mismatches" % (total, len(mism)))
    # (recorded first, so that they are reported even if one of the checks on the judge itself fails below)
    seen = set()
    for m in sorted(mism, key=lambda m: m["i"]):
        if m["case"] == "selftest-corrupt":
            continue
        if (m["case"], m["key"]) in seen:
            continue
        seen.add((m["case"], m["key"]))
        violations.append(Violation(m["key"], "recorded %s [%s] event %d: want %s got %s" % (
            m["ev"], m["case"], m["i"], vlib.short(m["want"], 200), vlib.short(m["got"], 200)),
            {"source": "recorded", "seed": ctx.seed, "tier": ctx.tier, **m}))
    if printed.get("ENCODER"):
        raise vlib.ToolError("harness encoder fault (the specification decodes the stored bytes to something else than "
                             "the encoder's input): %s" % vlib.short(printed["ENCODER"][0], 800))
    if printed.get("UNMODELLED"):
        raise vlib.ToolError("trace contains events the trace specification does not know: %s" % set(printed["UNMODELLED"]))
    if total != rec["events"] + len(plant):
        raise vlib.ToolError("judge examined %d events, %d were recorded" % (total, rec["events"] + len(plant)))
    planted_seen = {m["ev"] for m in mism if m["case"] == "selftest-corrupt"}
    if planted_seen != set(want_kinds):
        raise vlib.ToolError("binding self-check failed: corrupted events accepted by Trace_Woff2: %s" %
                             sorted(set(want_kinds) - planted_seen))

    sample_events = []
    with open(trace) as f:
        for ln in f:
            if '"ev":"Glyph"' in ln and len(ln) < 3000:
                sample_events.append(json.loads(ln))
                break
    coverage = cov
    coverage.update({
        "states": mc.distinct,
        "transitions": rep["vectors"].get("b128", 0) + rep["vectors"].get("u255", 0) + rep["vectors"].get("trip", 0)
                       + rep["cases"].get("font", 0) + rep["cases"].get("dir", 0),
        "traces_validated_against_impl": n_cases + rec["tally"].get("source_fonts", 0) * 2 + rec["tally"].get("collections", 0),
        "samples": [json.loads(samples[k]) for k in sorted(samples)][:3] + sample_events,
        "generated_cases": rep["cases"],
        "generated_vectors": rep["vectors"],
        "generated_mismatches": len(gen_mism),
        "triplet_entries_exercised": rep["triplet_entries_exercised"],
        "u255_first_bytes_exercised": rep["u255_first_bytes_exercised"],
        "encoder_choices_exercised": rep["choices"],
        "glyph_kinds_generated": rep["glyph_kinds"],
        "size_boundaries_generated": bnd,
        "composite_positions_generated": comp,
        "container_features_generated": feat,
        "glyph_counts_decoded_through_glyf_transform": rep.get("glyph_counts_transformed", []),
        "bitmap_length_lemma": "BitmapLenRule(n) checked by TLC for n = 0..130 (encoder length = decoder length = "
                               "4*floor((n+31)/32), minimal, bits read back, last-glyph bbox split)",
        "recorded_events_judged": total,
        "recorded_events_by_kind": rec["by_kind"],
        "recorded_tally": rec["tally"],
        "recorded_mismatches": len([m for m in mism if m["case"] != "selftest-corrupt"]),
        "tlc_states_generated": mc.generated,
        "binding_selfcheck": "corrupted generated case and corrupted Glyph/Hmtx/U255/Dir events rejected; "
                             "harness encoder = TLA+ encoder on all %d font cases" % rep["cases"].get("font", 0),
        "exhaustive": True,
        "explanation": "exhaustive over the bounded model (255UInt16: all 65536 values x all forms; triplets: every entry "
                       "that fits each (dx,dy) of the domain; glyph sequences over a 6-glyph pool x encoder choices); "
                       "recorded traces are seeded samples of repository fonts",
    })


def replay(ctx, path):
    d = json.load(open(path))["detail"]
    binp = vlib.build_harness(BIN)
    if d["source"] == "generated" and d.get("case"):
        cp, mp = ctx.path("case.ndjson"), ctx.path("mm.ndjson")
        vlib.write_ndjson(cp, [d["case"]])
        rep = vlib.run_harness(binp, ["replay", cp, mp])
        mm = vlib.read_ndjson(mp)
        for m in mm:
            print("REPRODUCED key=%s want=%s got=%s" % (_gen_key(m), vlib.short(_brief(m["want"])), vlib.short(_brief(m["got"]))))
        print(json.dumps({k: rep[k] for k in ("cases", "mismatches")}))
        return 1 if mm else 0
    print("recorded-trace violation: re-run `VERIF_SEED=%s ./check C11 --tier %s`; event: %s" % (
        d.get("seed"), d.get("tier"), vlib.short(d, 2000)))
    return 1
