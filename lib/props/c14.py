"""C14 - the binary reader never reads outside its buffer and decodes exactly.

spec -> impl : TLC explores MC_BinaryReader (every distinct reader object over small buffers,
               every operation on it), checks the design invariants and prints one CASE per
               object; the harness replays every CASE on the real ReadScope/ReadCtxt/ReadArray.
impl -> spec : random scripts over larger buffers with exotic arguments are recorded and judged
               by Trace_BinaryReader (same Apply operator).
"""
import json
import os
import re

import vlib
from vlib import Violation

LEVEL = "model_checking"

ASSUMPTIONS = [
    "the read hook (cfg allsorts_verif) reports every primitive unchecked read; reads that bypass "
    "ReadCtxt::read_unchecked_* (plain slice indexing, bounds-checked by Rust) are seen only through their results",
    "values are compared through their big-endian byte image (std to_be_bytes is trusted)",
    "HUGE stands for every usize above 30000; eight concrete representatives are executed per HUGE argument",
    "objects are plain values: an operation on one object cannot affect another (Rust ownership), which is what "
    "justifies exploring one focus object per state",
]


def _errclass(e):
    if e.startswith("Panic:"):
        m = e[len("Panic:"):].strip()
        m = m.rsplit(" @ ", 1)
        loc = m[1] if len(m) > 1 else ""
        f = loc.rsplit(":", 1)[0].rsplit("/src/", 1)[-1]
        return "Panic(" + re.sub(r"\d+", "N", m[0])[:50].replace(" ", "_") + "@" + f + ")"
    return e or "Ok"


def _key(m):
    o, want, got = m["o"], m["want"], m["got"]
    diff = sorted(k for k in want if got.get(k) != want.get(k))
    strided = ""
    if o["op"] == "ReadArrayStride":
        strided = ""
    return "%s|want=%s|got=%s|diff=%s" % (o["op"], _errclass(want["err"]), _errclass(got["err"]), ",".join(diff))


def _mk_viol(m, source):
    return Violation(_key(m), "%s: %s want %s got %s" % (source, vlib.short(m["o"], 120),
                                                       vlib.short(m["want"], 160), vlib.short(m["got"], 200)),
                     {"source": source, **m})


def run(ctx):
    binp = vlib.build_harness("c14_reader")
    cfg = "MC_BinaryReader_quick.cfg" if ctx.quick else "MC_BinaryReader_thorough.cfg"
    cases_path = ctx.path("cases.ndjson")
    n_cases = [0]
    sample_cases = []
    with open(cases_path, "w") as fc:
        def sink(tag, payload):
            if tag == "CASE":
                fc.write(payload + "\n")
                n_cases[0] += 1
                if len(sample_cases) < 2 and '"path":[{' in payload and len(payload) < 60000:
                    sample_cases.append(payload)
        mc = vlib.run_tlc(ctx, "MC_BinaryReader", cfg, "mc", workers=8, timeout=1500 if not ctx.quick else 600,
                          sink=sink)
    ctx.note("MC_BinaryReader: %d states generated, %d distinct, depth %d, %d cases (%.1fs)" %
             (mc.generated, mc.distinct, mc.depth, n_cases[0], mc.wall))
    if n_cases[0] == 0:
        raise vlib.ToolError("no CASE lines generated")

    # spec -> impl
    mism_path = ctx.path("mismatches.ndjson")
    search_trace = ctx.path("search_trace.ndjson")
    rep = vlib.run_harness(binp, ["replay", cases_path, mism_path, search_trace])
    ctx.note("replay: %s" % json.dumps(rep))
    violations = []
    for m in vlib.read_ndjson(mism_path):
        violations.append(_mk_viol(m, "generated"))

    # impl -> spec
    n_rec_cases, n_ops = (300, 40) if ctx.quick else (6000, 60)
    trace = ctx.path("trace.ndjson")
    rec = vlib.run_harness(binp, ["record", ctx.seed, n_rec_cases, n_ops, trace])
    ctx.note("record: %s" % json.dumps(rec))
    # binding self-check: a corrupted copy of one recorded read must be rejected by the judge
    events = vlib.read_ndjson(trace)
    planted = None
    for idx, e in enumerate(events):
        if e["ev"] in ("ReadM", "ReadT") and e["o"]["ok"] and e["o"]["v"]:
            # replay the case prefix up to this event under a new case id with one byte flipped
            case = e["case"]
            prefix = [x for x in events[:idx + 1] if x["case"] == case]
            planted = [dict(x, case="selftest-corrupt", i=10 ** 8 + k) for k, x in enumerate(prefix)]
            bad = json.loads(json.dumps(planted[-1]))
            bad["o"]["v"][0] = (bad["o"]["v"][0] + 1) % 256
            planted[-1] = bad
            break
    if planted is None:
        raise vlib.ToolError("no successful read recorded: trace is vacuous")
    with open(trace, "a") as f:
        for x in planted:
            f.write(json.dumps(x) + "\n")
    with open(trace, "a") as f, open(search_trace) as g:
        f.write(g.read())
    try:
        total, mism = vlib.judge_trace_parallel(ctx, "Trace_BinaryReader", "Trace_BinaryReader.cfg", trace, "judge",
                                                parts=4 if ctx.quick else 12)
    except vlib.ToolError as e:
        if not violations:
            raise
        # the generated cases already refute the property on this tree: report them; the judge's failure on
        # a trace of a non-conforming implementation is noted, not allowed to mask the verdict
        ctx.note("judge failed on the recorded trace (%s); reporting the %d replay violations" %
                 (str(e).splitlines()[0], len(violations)))
        vlib.finish(ctx, LEVEL, {"states": mc.distinct, "transitions": rep.get("ops_executed", 0),
                                 "traces_validated_against_impl": n_cases[0], "samples": sample_cases[:1] or ["-"],
                                 "explanation": "trace judge did not complete; verdict from generated cases only"},
                    violations, ASSUMPTIONS)
    ctx.note("judge: %d events, %d mismatches" % (total, len(mism)))
    seen_case = set()
    planted_seen = False
    for m in sorted(mism, key=lambda m: m["i"]):
        if m["case"] == "selftest-corrupt":
            planted_seen = True
            continue
        if m["case"] in seen_case:
            continue      # later events of a diverged case are consequences of the first
        seen_case.add(m["case"])
        violations.append(_mk_viol(m, "recorded"))
    if not planted_seen:
        raise vlib.ToolError("binding self-check failed: the corrupted event was accepted by Trace_BinaryReader")

    n_search = sum(1 for _ in open(search_trace))
    coverage = {
        "states": mc.distinct,
        "transitions": rep.get("ops_executed", 0),
        "traces_validated_against_impl": n_cases[0] + n_rec_cases,
        "samples": [json.loads(s) if len(s) < 4000 else json.loads(s)["path"] for s in sample_cases[:1]] +
                   [e for e in events[1:4]],
        "generated_cases": n_cases[0],
        "generated_ops_executed_on_impl": rep.get("ops_executed", 0),
        "op_type_outcome_classes": rep.get("op_type_outcome_classes", 0),
        "recorded_events_judged": total,
        "search_events_judged_relationally": n_search,
        "tlc_states_generated": mc.generated,
        "tlc_depth": mc.depth,
        "binding_selfcheck": "corrupted event rejected",
        "exhaustive": True,
        "explanation": "exhaustive over the bounded model (config %s); recorded traces are random samples" % cfg,
    }
    vlib.finish(ctx, LEVEL, coverage, violations, ASSUMPTIONS)


def replay(ctx, path):
    d = json.load(open(path))["detail"]
    binp = vlib.build_harness("c14_reader")
    if d["source"] == "generated":
        case = {"root": d["root"], "path": d["script"], "focus": 0, "fan": [{"o": d["o"], "exp": d["want"]}]}
        cp = ctx.path("case.ndjson")
        vlib.write_ndjson(cp, [case])
        rep = vlib.run_harness(binp, ["replay", cp, ctx.path("mm.ndjson"), ctx.path("st.ndjson")])
        mm = vlib.read_ndjson(ctx.path("mm.ndjson"))
        for m in mm:
            print("REPRODUCED want=%s got=%s" % (vlib.short(m["want"]), vlib.short(m["got"])))
        print(json.dumps(rep))
        return 1 if mm else 0
    print("recorded-trace violation: re-run the check with VERIF_SEED=%d; event: %s" % (ctx.seed, vlib.short(d, 2000)))
    return 1
