"""C14 - the binary reader never reads outside its buffer and decodes exactly.

spec -> impl : TLC explores MC_BinaryReader (every distinct reader object over small buffers and, with the
               composite element types whose fields all differ in size, over wide buffers; every operation on
               it), checks the design invariants and prints one CASE per object; the harness replays every CASE
               on the real ReadScope/ReadCtxt/ReadArray/ReadArrayCow/ReadCache.
impl -> spec : random scripts over larger buffers with exotic arguments are recorded and judged
               by Trace_BinaryReader (same Apply operator).
"""
import json
import os
import re

import vlib
from vlib import Violation

LEVEL = "model_checking"

ASSUMPTIONS = [
    "the read hook (cfg allsorts_verif) reports every primitive unchecked read; reads that bypass "
    "ReadCtxt::read_unchecked_* (plain slice indexing, bounds-checked by Rust) are seen only through their results",
    "values are compared through their big-endian byte image (std to_be_bytes is trusted); the value of a tuple is "
    "the concatenation of the images of its fields",
    "HUGE stands for every usize above 30000; eight concrete representatives are executed per HUGE argument",
    "objects are plain values: an operation on one object cannot affect another (Rust ownership), which is what "
    "justifies exploring one focus object per state; a ReadCache is the one piece of shared state and is carried "
    "by the model",
    "ReadScope.base (private) is read from the derived Debug output ('base: N') and confirmed through PartialEq "
    "against a scope built with ReadScope::new + offset; if the Debug text is not understood PartialEq alone is used",
]

# composite element types whose fields all differ in size: shape = "<arity>:<field sizes>"
SHAPES = ["2:1-2", "2:2-4", "2:4-8", "2:8-1", "3:1-2-4", "3:2-4-8", "3:4-8-1", "3:8-1-2", "3:1-3-2",
          "4:1-2-4-8", "4:2-4-8-1", "4:4-8-1-2", "4:8-1-2-4", "2x2:2-1-8-4", "nt4:4-1-8-2", "nt3:4-1-2"]
# what the generated cases must exercise for every shape ...
FAMILIES = ["read.ok", "read.eof", "array.nonempty", "array.eof", "upto.nonempty", "item.ok", "item.fail",
            "iter.one", "iter.many", "search.found", "search.notfound"]
# ... and strided arrays with a gap between the elements for at least these
STRIDED = ["2:1-2", "2:2-4", "2:8-1", "3:1-2-4", "3:4-8-1", "4:1-2-4-8", "4:8-1-2-4", "2x2:2-1-8-4", "nt4:4-1-8-2"]
# every scope-producing operation must have to produce a non-zero base on a non-empty window
BASE_OPS = ["Offset", "OffsetLength", "Ctxt", "ReadScope", "CtxtScope", "ScopeOwned"]
# operations the recorded scripts must have executed with every shape (counted on the harness' choices)
REC_OPS = ["ReadT", "ScopeRead", "ReadArray", "ReadArrayStride", "ReadArrayUpto", "GetItem", "Iter", "Search"]
# (operation, prescribed outcome) pairs and dependent-element situations the generated cases must contain
GEN_OPS = ["CtxtClone|ok", "ScopeReadDep|ok", "ScopeReadDep|Eof", "EmptyArray|ok", "ReadB|ok", "ReadB|Eof", "Check|ok", "Check|BadValue",
           "Check|BadIndex", "Check|BadVersion", "ReadArrayDepT|ok", "ReadArrayDepT|Eof", "ReadDep|ok", "ReadDep|Eof",
           "ReadItem|BadValue", "ReadToVec|BadValue", "ReadArrayDep|ok", "ReadArrayDep|Eof"]
GEN_DEP = ["dep|item.positioned", "dep|iter.many", "dep|tovec.nonempty", "depv|item.positioned", "depv|item.refused",
           "depv|iter.mixed", "depv|iter.allrefused", "depv|iter.many", "depv|tovec.refused", "depv|tovec.nonempty"]
GEN_EMPTY = ["Len", "GetItem", "ReadItem", "Last", "Iter", "IntoIter", "ToVec", "IterRes", "ReadToVec", "CowIter", "OwnIter",
             "Search", "CheckIndex"]


def _errclass(e):
    if e.startswith("Panic:"):
        m = e[len("Panic:"):].strip()
        m = m.rsplit(" @ ", 1)
        loc = m[1] if len(m) > 1 else ""
        f = loc.rsplit(":", 1)[0].rsplit("/src/", 1)[-1]
        return "Panic(" + re.sub(r"\d+", "N", m[0])[:50].replace(" ", "_") + "@" + f + ")"
    return e or "Ok"


def _key(m):
    o, want, got = m["o"], m["want"], m["got"]
    diff = sorted(k for k in want if got.get(k) != want.get(k))
    return "%s|want=%s|got=%s|diff=%s" % (o["op"], _errclass(want["err"]), _errclass(got["err"]), ",".join(diff))


def _mk_viol(m, source):
    return Violation(_key(m), "%s: %s want %s got %s" % (source, vlib.short(m["o"], 120),
                                                       vlib.short(m["want"], 160), vlib.short(m["got"], 200)),
                     {"source": source, **m})


def _obs(**kw):
    o = {"ok": True, "err": "", "v": [], "num": 0, "cnt": 0, "new": [], "rem": -1, "touched": [], "aux": []}
    o.update(kw)
    return o


def _op(op, t, ty="", a=0, b=0, key=None):
    return {"op": op, "t": t, "ty": ty, "a": a, "b": b, "key": key or []}


def _planted_events():
    """Binding self-check of the judge: hand-written events over the buffer 1..8 (nothing here comes from
    allsorts). Each case is correct up to its last event, which is wrong in exactly one fact."""
    root = [1, 2, 3, 4, 5, 6, 7, 8]
    cases = {
        # a read that returns the neighbouring byte
        "selftest-value": [
            ("Ctxt", _op("Ctxt", 1), _obs(new=[0, 8, 0, 1])),
            ("ReadM", _op("ReadM", 2, "u8"), _obs(v=[2], num=2, rem=7, touched=[0])),
        ],
        # a sub-window that keeps its parent's base (right bytes, wrong position)
        "selftest-base": [
            ("OffsetLength", _op("OffsetLength", 1, "", 2, 3), _obs(new=[2, 3, 0, 1])),
        ],
        # a (U8, U16Be, U32Be) whose third field is decoded one byte early (as if the second field had size 1)
        "selftest-tuple": [
            ("ScopeRead", _op("ScopeRead", 1, "t124"), _obs(v=[1, 2, 3, 3, 4, 5, 6], touched=[0, 1, 2, 3, 4, 5, 6])),
        ],
        # a cached read through another window that answers with the first window's value
        "selftest-cache": [
            ("ReadCache", _op("ReadCache", 1, "u16"), _obs(v=[1, 2], num=258, touched=[0, 1])),
            ("OffsetLength", _op("OffsetLength", 1, "", 2, 2), _obs(new=[2, 2, 2, 1])),
            ("ReadCache", _op("ReadCache", 2, "u16"), _obs(v=[1, 2], num=258)),
        ],
        # an element of a dependent array that is handed the rest of the array instead of its own 3 bytes
        "selftest-depwindow": [
            ("Ctxt", _op("Ctxt", 1), _obs(new=[0, 8, 0, 1])),
            ("ReadArrayDep", _op("ReadArrayDep", 2, "dep", 2, 3), _obs(cnt=2, new=[-1, -1, 2, -1], rem=2)),
            ("ReadItem", _op("ReadItem", 3, "dep", 0), _obs(v=[1, 2, 3], aux=[0, 6])),
        ],
        # read_to_vec that swallows the refusal of elements 0 and 2 (first byte odd) and returns the others
        "selftest-refused": [
            ("Ctxt", _op("Ctxt", 1), _obs(new=[0, 8, 0, 1])),
            ("ReadArrayDep", _op("ReadArrayDep", 2, "depv", 4, 1), _obs(cnt=4, new=[-1, -1, 4, -1], rem=4)),
            ("ReadToVec", _op("ReadToVec", 3, "depv"), _obs(v=[2, 4], cnt=2)),
        ],
    }
    evs, bad = [], {}
    i = 10 ** 8
    for cid, steps in cases.items():
        i += 1
        evs.append({"i": i, "case": cid, "ev": "Init", "a": {"root": root}, "o": {}})
        for ev, a, o in steps:
            i += 1
            evs.append({"i": i, "case": cid, "ev": ev, "a": a, "o": o})
        bad[cid] = i        # the last event of the case is the corrupted one
    return evs, bad


def _planted_case():
    """Binding self-check of the replay: a case whose expectation no reader can meet (three bytes from a u8)."""
    return {"root": [1, 2, 3, 4], "path": [], "focus": 1, "selftest": True,
            "fan": [{"o": _op("ScopeRead", 1, "u8"), "exp": _obs(v=[1, 2, 3], num=1, touched=[0])}]}


def _vacuity(counters, rec_counters):
    """Names of the required situations that the generated cases / recorded scripts did not contain."""
    missing = []
    for sh in SHAPES:
        for f in FAMILIES:
            if counters.get("shape|%s|%s" % (sh, f), 0) == 0:
                missing.append("generated %s %s" % (sh, f))
    for sh in STRIDED:
        if counters.get("shape|%s|stride.nonempty.gap" % sh, 0) == 0:
            missing.append("generated %s stride.nonempty.gap" % sh)
    for op in BASE_OPS:
        if counters.get("base|%s|positioned" % op, 0) == 0:
            missing.append("generated %s with a non-zero base on a non-empty window" % op)
    for op in ("Offset", "OffsetLength"):
        if counters.get("base|%s|huge" % op, 0) == 0:
            missing.append("generated %s with a huge base" % op)
    for k in ["cache|hit", "cache|miss", "eq|0", "eq|1"] + ["op|" + x for x in GEN_OPS] + GEN_DEP + \
            ["emptyarray|" + x for x in GEN_EMPTY]:
        if counters.get(k, 0) == 0:
            missing.append("generated " + k)
    missing_rec = []
    for sh in SHAPES:
        for op in REC_OPS:
            if rec_counters.get("rec|%s|%s" % (sh, op), 0) == 0:
                missing_rec.append("recorded %s %s" % (sh, op))
    for op in ("ReadCache", "ScopeEq", "ScopeOwned", "ReadDep", "OwnIter", "OwnGetItem", "IntoIter", "ReadToVec",
               "ScopeReadDep", "EmptyArray", "ReadB", "Check", "ReadArrayDepT", "ReadArrayDep", "IterRes", "CtxtClone"):
        if rec_counters.get("recop|" + op, 0) == 0:
            missing_rec.append("recorded " + op)
    # nesting: operations executed on objects at least three (contexts, arrays: four) derivation steps from the root
    for kind, d in (("scope", 3), ("ctxt", 4), ("array", 4)):
        if sum(v for k, v in rec_counters.items() if k.startswith("recdepth|%s|" % kind) and int(k.split("|")[2]) >= d) == 0:
            missing_rec.append("recorded operation on a %s at depth >= %d" % (kind, d))
    return missing, missing_rec


def _per_shape(counters):
    out = {}
    for k, v in counters.items():
        if k.startswith("shape|"):
            _, sh, fam = k.split("|")
            out.setdefault(sh, {})[fam] = v
    return out


def run(ctx):
    binp = vlib.build_harness("c14_reader")
    cfg = "MC_BinaryReader_quick.cfg" if ctx.quick else "MC_BinaryReader_thorough.cfg"
    cases_path = ctx.path("cases.ndjson")
    n_cases = [0]
    sample_cases = []
    with open(cases_path, "w") as fc:
        def sink(tag, payload):
            if tag == "CASE":
                fc.write(payload + "\n")
                n_cases[0] += 1
                if len(sample_cases) < 2 and '"path":[{' in payload and len(payload) < 60000:
                    sample_cases.append(payload)
        mc = vlib.run_tlc(ctx, "MC_BinaryReader", cfg, "mc", workers=4, timeout=2400 if not ctx.quick else 1500,
                          sink=sink)
        fc.write(json.dumps(_planted_case()) + "\n")
    planted_ci = n_cases[0]          # index of the planted case in the file
    ctx.note("MC_BinaryReader: %d states generated, %d distinct, depth %d, %d cases (%.1fs)" %
             (mc.generated, mc.distinct, mc.depth, n_cases[0], mc.wall))
    if n_cases[0] == 0:
        raise vlib.ToolError("no CASE lines generated")

    # spec -> impl
    mism_path = ctx.path("mismatches.ndjson")
    search_trace = ctx.path("search_trace.ndjson")
    rep = vlib.run_harness(binp, ["replay", cases_path, mism_path, search_trace])
    counters = rep.pop("counters", {})
    ctx.note("replay: %s" % json.dumps(rep))
    violations = []
    planted_case_seen = False
    for m in vlib.read_ndjson(mism_path):
        if m["case"] == planted_ci:
            planted_case_seen = True
            continue
        violations.append(_mk_viol(m, "generated"))
    if not planted_case_seen:
        raise vlib.ToolError("binding self-check failed: the replay accepted a case with an impossible expectation")

    # impl -> spec
    n_rec_cases, n_ops, maxlen = (2500, 40, 3000) if ctx.quick else (40000, 80, 12000)
    trace = ctx.path("trace.ndjson")
    def verdict_from_replay_only(stage, e):
        # the generated cases already refute the property on this tree: report them; the failure of a later
        # stage on a non-conforming implementation is noted, not allowed to mask the verdict
        ctx.note("%s failed (%s); reporting the %d replay violations" % (stage, str(e).splitlines()[0][:300],
                                                                        len(violations)))
        vlib.finish(ctx, LEVEL, {"states": mc.distinct, "transitions": rep.get("ops_executed", 0),
                                 "traces_validated_against_impl": n_cases[0], "samples": sample_cases[:1] or ["-"],
                                 "explanation": "%s did not complete; verdict from generated cases only" % stage},
                    violations, ASSUMPTIONS)

    try:
        rec = vlib.run_harness(binp, ["record", ctx.seed, n_rec_cases, n_ops, maxlen, trace])
    except vlib.ToolError as e:
        if not violations:
            raise
        verdict_from_replay_only("recording", e)
    rec_counters = rec.pop("counters", {})
    ctx.note("record: %s" % json.dumps(rec))
    missing, missing_rec = _vacuity(counters, rec_counters)
    if missing:
        # computed from what TLC generated: independent of the tree under test
        raise vlib.ToolError("vacuous generation: " + "; ".join(missing[:12]))
    if missing_rec and not violations:
        raise vlib.ToolError("vacuous recording: " + "; ".join(missing_rec[:12]))
    sample_events = []
    with open(trace) as f:
        for ln in f:
            if len(sample_events) >= 4:
                break
            sample_events.append(json.loads(ln))
    # binding self-check: hand-written cases, each with exactly one wrong fact, must be rejected at that event
    planted, planted_bad = _planted_events()
    with open(trace, "a") as f:
        for x in planted:
            f.write(json.dumps(x) + "\n")
    with open(trace, "a") as f, open(search_trace) as g:
        for ln in g:
            f.write(ln)
    n_parts = 4 if ctx.quick else 8
    try:
        total, mism = vlib.judge_trace_parallel(ctx, "Trace_BinaryReader", "Trace_BinaryReader.cfg", trace, "judge",
                                                parts=n_parts, timeout=2400)
    except vlib.ToolError as e:
        if not violations:
            raise
        verdict_from_replay_only("trace judge", e)
    ctx.note("judge: %d events, %d mismatches" % (total, len(mism)))
    seen_case = set()
    planted_hit = {}
    for m in sorted(mism, key=lambda m: m["i"]):
        if m["case"] in planted_bad:
            planted_hit.setdefault(m["case"], []).append(m["i"])
            continue
        if m["case"] in seen_case:
            continue      # later events of a diverged case are consequences of the first
        seen_case.add(m["case"])
        violations.append(_mk_viol(m, "recorded"))
    for cid, bad_i in planted_bad.items():
        if planted_hit.get(cid) != [bad_i]:
            raise vlib.ToolError("binding self-check failed: case %s must be rejected at event %d and nowhere else, "
                                 "Trace_BinaryReader rejected %s" % (cid, bad_i, planted_hit.get(cid)))

    n_search = sum(1 for _ in open(search_trace))
    coverage = {
        "states": mc.distinct,
        "transitions": rep.get("ops_executed", 0),
        "traces_validated_against_impl": n_cases[0] + n_rec_cases,
        "samples": [json.loads(s) if len(s) < 4000 else json.loads(s)["path"] for s in sample_cases[:1]] +
                   sample_events[1:4],
        "generated_cases": n_cases[0],
        "generated_ops_executed_on_impl": rep.get("ops_executed", 0),
        "op_type_outcome_classes": rep.get("op_type_outcome_classes", 0),
        "recorded_events_judged": total,
        "search_events_judged_relationally": n_search,
        "tlc_states_generated": mc.generated,
        "tlc_depth": mc.depth,
        "binding_selfcheck": "replay: impossible expectation rejected; judge: %d hand-written corrupted cases "
                             "(value, base, tuple layout, cached read, window handed to a dependent element, "
                             "swallowed element refusal) each rejected at the corrupted event only"
                             % len(planted_bad),
        "vacuity_per_shape_generated": _per_shape(counters),
        "vacuity_scope_base_generated": {k: v for k, v in counters.items()
                                         if not k.startswith(("shape|", "op|", "dep", "emptyarray|"))},
        "vacuity_op_outcome_generated": {k[3:]: v for k, v in counters.items() if k.startswith("op|")},
        "vacuity_dependent_elements_generated": {k: v for k, v in counters.items() if k.startswith("dep")},
        "vacuity_empty_array_ops_generated": {k[len("emptyarray|"):]: v for k, v in counters.items()
                                              if k.startswith("emptyarray|")},
        "vacuity_recorded_ops": {k[len("recop|"):]: v for k, v in rec_counters.items() if k.startswith("recop|")},
        "vacuity_recorded_ops_by_kind_and_depth": {k[len("recdepth|"):]: v for k, v in rec_counters.items()
                                                   if k.startswith("recdepth|")},
        "vacuity_recorded_min_per_shape_op": min([rec_counters.get("rec|%s|%s" % (sh, op), 0)
                                                  for sh in SHAPES for op in REC_OPS]),
        "exhaustive": True,
        "explanation": "exhaustive over the bounded model (config %s); recorded traces are random samples" % cfg,
    }
    vlib.finish(ctx, LEVEL, coverage, violations, ASSUMPTIONS)


def replay(ctx, path):
    d = json.load(open(path))["detail"]
    binp = vlib.build_harness("c14_reader")
    if d["source"] == "generated":
        case = {"root": d["root"], "path": d["script"], "focus": 0, "fan": [{"o": d["o"], "exp": d["want"]}]}
        cp = ctx.path("case.ndjson")
        vlib.write_ndjson(cp, [case])
        rep = vlib.run_harness(binp, ["replay", cp, ctx.path("mm.ndjson"), ctx.path("st.ndjson")])
        rep.pop("counters", None)
        mm = vlib.read_ndjson(ctx.path("mm.ndjson"))
        for m in mm:
            print("REPRODUCED want=%s got=%s" % (vlib.short(m["want"]), vlib.short(m["got"])))
        print(json.dumps(rep))
        return 1 if mm else 0
    print("recorded-trace violation: re-run the check with VERIF_SEED=%d; event: %s" % (ctx.seed, vlib.short(d, 2000)))
    return 1
