"""C16 - TrueType outlines are decoded with correct contour and composite semantics.

spec -> impl : TLC explores MC_Glyf (every on/off pattern of contours of 1..5 points, 1..3 contours, six
               flag/coordinate encodings, composite trees of depth <= 3 over every transform kind, chains
               around the nesting bound, cycles), checks the design invariants of Glyf.tla and prints one
               CASE per glyph table (real glyf bytes). The harness lays the records out as glyf/loca, calls
               allsorts' OutlineBuilder::visit with a recording sink and logs what was delivered.
impl -> spec : glyphs of the repository's glyf fonts (records sliced out by an independent reader) are
               visited the same way.
Both logs are judged by Trace_Glyf: it parses the bytes, unpacks the points, walks the contours, composes
the component transforms (operators of Glyf.tla) and accepts the delivered commands iff every sub-path is
a valid walk of the corresponding contour.
"""
import concurrent.futures
import json

import vlib
from vlib import Violation

LEVEL = "model_checking"

ASSUMPTIONS = [
    "coordinates delivered by allsorts (f32) are logged rounded to 1/16384 unit; outlines without a matrix must "
    "match exactly, matrix-transformed ones within 1/64 unit plus the specification's own rounding bound (<= a few 1/16384)",
    "which on-curve point starts a sub-path and whether the closing straight edge is spelled out before close are "
    "left open by the property text (Dev_Start, Dev_ExplicitClose): any such walk is accepted",
    "a two-by-two component matrix is read as Apple's TrueType reference, FreeType, HarfBuzz and fontTools do: "
    "file order xscale, scale01, scale10, yscale with x' = xscale*x + scale10*y, y' = scale01*x + yscale*y",
    "components positioned by point numbers (ARGS_ARE_XY_VALUES clear) and SCALED_COMPONENT_OFFSET with a matrix are "
    "not modelled (none occurs in the repository fonts; never generated); malformed records are not judged (C01)",
    "the nesting bound is the implementation's (6 levels below the visited glyph); deeper nesting and cycles must "
    "end in an error, not a panic",
    "composite children with coordinates beyond 16384 units under a matrix are outside the model's 32-bit domain and skipped (counted)",
]

STAT_KEYS = ["events", "judged_ok", "judged_err", "skipped", "root_simple", "root_composite", "root_empty",
             "with_matrix", "contours", "start_first_on", "start_last_on", "start_implied", "implied_points",
             "closing_edge_curves", "points"]


def _judge_parallel(ctx, trace, tag, parts):
    files = vlib.split_trace(trace, parts)
    stats = {k: 0 for k in STAT_KEYS}
    mism, skips, total = [], [], 0

    def one(kf):
        k, f = kf
        return vlib.judge_trace(ctx, "Trace_Glyf", "Trace_Glyf.cfg", f, "%s.%d" % (tag, k), timeout=1500, xmx="3g")
    with concurrent.futures.ThreadPoolExecutor(max_workers=len(files)) as ex:
        for res, mm in ex.map(one, list(enumerate(files))):
            total += res.distinct - 1
            mism.extend(mm)
            for s in res.printed.get("STATS", []):
                for k, v in json.loads(s).items():
                    stats[k] = stats.get(k, 0) + v
            skips.extend(json.loads(s) for s in res.printed.get("SKIP", []))
    return total, mism, skips, stats


def _key(m):
    return "visit|%s|%s" % (m.get("kind", "?"), m["class"])


def _case_features(abs_):
    """Vacuity counters measured on the generated cases (facts printed by TLC)."""
    f = []
    if abs_["kind"] == "simple":
        f.append("simple_%d_contours" % len(abs_["pats"]))
        f.append("enc_rep_" + abs_["mode"]["rep"])
        f.append("enc_zero_" + ("same" if abs_["mode"]["same"] else abs_["mode"]["zero"]))
        f.append("enc_short" if abs_["mode"]["short"] else "enc_words")
        for p in abs_["pats"]:
            if not any(p):
                f.append("contour_all_off")
            elif not p[0] and p[-1]:
                f.append("contour_first_off_last_on")
            elif not p[0]:
                f.append("contour_first_off_last_off_some_on")
            if len(p) == 1:
                f.append("contour_single_point")
    elif abs_["kind"] == "long":
        f.append("long_run_%s_%s" % (abs_["mode"]["rep"], "ge257" if abs_["v"] >= 257 else "le256"))
    else:
        f.append("composite_depth_%d" % len(abs_["defs"]))
        for d in abs_["defs"]:
            for c in d:
                f.append("matrix_" + c["kind"])
                f.append("offset_words" if c["words"] else "offset_bytes")
    return f


def run(ctx):
    binp = vlib.build_harness("c16_glyf")
    cfg = "MC_Glyf_quick.cfg" if ctx.quick else "MC_Glyf_thorough.cfg"
    cases_path = ctx.path("cases.ndjson")
    n_cases = [0]
    features = {}
    sample_case = []
    n_err_expected = [0]
    with open(cases_path, "w") as fc:
        def sink(tag, payload):
            if tag != "CASE":
                return
            fc.write(payload + "\n")
            n_cases[0] += 1
            c = json.loads(payload)
            for f in set(_case_features(c["abs"])):
                features[f] = features.get(f, 0) + 1
            if c["st"] == "err":
                n_err_expected[0] += 1
            if not sample_case and c["abs"]["kind"] == "simple" and len(c["abs"]["pats"]) == 2:
                sample_case.append(c)
        mc = vlib.run_tlc(ctx, "MC_Glyf", cfg, "mc", workers=8, timeout=600 if ctx.quick else 2400, sink=sink)
    ctx.note("MC_Glyf: %d states generated, %d distinct, %d cases, design invariants hold (%.1fs)" %
             (mc.generated, mc.distinct, n_cases[0], mc.wall))
    if n_cases[0] == 0:
        raise vlib.ToolError("no CASE lines generated")
    needed = ["long_run_max_ge257", "long_run_split_ge257", "long_run_max_le256", "simple_1_contours", "simple_2_contours", "simple_3_contours", "enc_rep_none", "enc_rep_max",
              "enc_rep_zero", "enc_rep_split", "enc_zero_same", "enc_zero_word", "enc_zero_short+", "enc_zero_short-",
              "contour_all_off", "contour_first_off_last_on", "contour_first_off_last_off_some_on",
              "contour_single_point", "composite_depth_1", "composite_depth_2", "composite_depth_3",
              "matrix_none", "matrix_scale", "matrix_xy", "matrix_2x2", "offset_words", "offset_bytes"]
    missing = [k for k in needed if features.get(k, 0) == 0]
    if missing or n_err_expected[0] == 0:
        raise vlib.ToolError("generator is vacuous for: %s (expected-error cases: %d)" % (missing, n_err_expected[0]))

    # spec -> impl: replay the generated glyph tables on allsorts
    gen_trace = ctx.path("gen_trace.ndjson")
    rep = vlib.run_harness(binp, ["replay", cases_path, gen_trace])
    ctx.note("replay: %s" % json.dumps(rep))

    # impl -> spec: glyphs of the repository fonts
    rec_trace = ctx.path("rec_trace.ndjson")
    sample = 60 if ctx.quick else 0
    rec = vlib.run_harness(binp, ["record", ctx.seed, sample, rec_trace])
    ctx.note("record: %s" % json.dumps(rec))
    if rec.get("glyphs", 0) == 0:
        raise vlib.ToolError("no glyph recorded from the repository fonts")

    # binding self-check: corrupted copies of accepted events must be rejected, a deviation inside the tolerance accepted
    planted = []
    exact_src = matrix_src = None
    with open(rec_trace) as f:
        for ln in f:
            e = json.loads(ln)
            if not e["o"]["ok"]:
                continue
            has_q = any(c[0] == 3 for c in e["o"]["cmds"])
            if exact_src is None and len(e["a"]["glyphs"]) == 1 and has_q:
                exact_src = e
            if exact_src is not None:
                break
    with open(gen_trace) as f:
        for ln in f:
            e = json.loads(ln)
            # a depth-1 composite with a plain scale: conforms on the current tree
            if e["case"].endswith("composite") and e["o"]["ok"] and len(e["a"]["glyphs"]) == 4:
                rec3 = e["a"]["glyphs"][3]["rec"]
                flags = rec3[10] * 256 + rec3[11]
                if flags & 0x08 and not flags & 0x20:
                    matrix_src = e
                    break
    if exact_src is None or matrix_src is None:
        raise vlib.ToolError("self-check: no suitable source event (exact=%s matrix=%s)" % (exact_src is not None, matrix_src is not None))

    def corrupt(e, tag, i, delta):
        x = json.loads(json.dumps(e))
        x["case"], x["i"] = tag, i
        k = next(j for j, c in enumerate(x["o"]["cmds"]) if c[0] == 3)
        x["o"]["cmds"][k][3] += delta
        return x
    planted.append(corrupt(exact_src, "selftest-exact-half-unit", 10 ** 8 + 1, 8192))
    planted.append(corrupt(matrix_src, "selftest-matrix-1/32", 10 ** 8 + 2, 512))
    planted.append(corrupt(matrix_src, "selftest-matrix-1/128-accepted", 10 ** 8 + 3, 128))
    dropped = json.loads(json.dumps(exact_src))       # an implied/explicit point dropped: one command removed
    dropped["case"], dropped["i"] = "selftest-command-dropped", 10 ** 8 + 4
    k = next(j for j, c in enumerate(dropped["o"]["cmds"]) if c[0] == 3)
    del dropped["o"]["cmds"][k]
    planted.append(dropped)

    trace = ctx.path("trace.ndjson")
    with open(trace, "w") as out:
        for p in (gen_trace, rec_trace):
            with open(p) as f:
                for ln in f:
                    out.write(ln)
        for x in planted:
            out.write(json.dumps(x, separators=(",", ":")) + "\n")
    total, mism, skips, stats = _judge_parallel(ctx, trace, "judge", 6 if ctx.quick else 10)
    ctx.note("judge: %d events, %d mismatches, %d not judged, stats %s" % (total, len(mism), len(skips), json.dumps(stats)))
    if total != n_cases[0] + rec["glyphs"] + len(planted):
        raise vlib.ToolError("judge consumed %d events, expected %d" % (total, n_cases[0] + rec["glyphs"] + len(planted)))

    seen_self = {m["case"] for m in mism if m["case"].startswith("selftest-")}
    want_self = {"selftest-exact-half-unit", "selftest-matrix-1/32", "selftest-command-dropped"}
    if seen_self != want_self:
        raise vlib.ToolError("binding self-check failed: rejected %s, expected exactly %s" % (sorted(seen_self), sorted(want_self)))
    for k in ("start_first_on", "start_last_on", "start_implied", "implied_points", "closing_edge_curves",
              "with_matrix", "judged_err", "root_composite", "root_simple"):
        if stats.get(k, 0) == 0:
            raise vlib.ToolError("judge statistics are vacuous for %s" % k)

    # violations: fetch the events of the mismatching indices so that each replay file is self-contained
    bad = {m["i"]: m for m in mism if not m["case"].startswith("selftest-")}
    events = {}
    if bad:
        with open(trace) as f:
            for ln in f:
                # cheap pre-filter on the index
                e = None
                if '"i":' in ln:
                    e = json.loads(ln)
                if e is not None and e["i"] in bad:
                    events[e["i"]] = e
    violations = []
    per_key = {}
    for i, m in sorted(bad.items()):
        key = _key(m)
        per_key[key] = per_key.get(key, 0) + 1
        if per_key[key] > 1:
            continue          # one violation (and replay file) per key; the count is reported below
        src = "generated" if m["case"].startswith("gen/") else "recorded"
        what = "%s %s: %s (want %d commands, got %d; first commands want %s got %s)" % (
            src, m["case"], m["class"], m["nwant"], m["ngot"], vlib.short(m["want"][:3], 150), vlib.short(m["got"][:3], 150))
        violations.append(Violation(key, what, {"source": src, "mismatch": m, "event": events.get(i)}))
    for k, n in sorted(per_key.items()):
        ctx.note("mismatch class %s: %d events" % (k, n))

    skip_why = {}
    for s in skips:
        skip_why[s["why"]] = skip_why.get(s["why"], 0) + 1
    coverage = {
        "states": mc.distinct,
        "transitions": total,
        "traces_validated_against_impl": n_cases[0] + rec["glyphs"],
        "samples": [sample_case[0] if sample_case else None,
                    {"case": exact_src["case"], "root": exact_src["a"]["root"], "cmds_first": exact_src["o"]["cmds"][:6]}],
        "generated_cases": n_cases[0],
        "generated_cases_expected_error": n_err_expected[0],
        "generated_case_features": features,
        "generated_visits_not_ok": rep.get("visits_not_ok", 0),
        "recorded_fonts": rec["fonts"],
        "recorded_glyphs": rec["glyphs"],
        "recorded_composites": rec["composites"],
        "recorded_nested_composites": rec["nested_composites"],
        "events_judged": total,
        "events_not_judged": skip_why,
        "judge_statistics": stats,
        "mismatch_classes": per_key,
        "tlc_states_generated": mc.generated,
        "binding_selfcheck": "3 corrupted events rejected, 1 in-tolerance deviation accepted",
        "exhaustive": True,
        "explanation": "exhaustive over the bounded model (config %s); repository glyphs: %s" %
                       (cfg, "seeded sample of %d per font plus all nested / matrix composites" % sample if sample else "all"),
    }
    vlib.finish(ctx, LEVEL, coverage, violations, ASSUMPTIONS)


def replay(ctx, path):
    d = json.load(open(path))["detail"]
    e = d["event"]
    binp = vlib.build_harness("c16_glyf")
    case = {"n": e["a"]["n"], "root": e["a"]["root"], "glyphs": e["a"]["glyphs"], "abs": {"kind": d["mismatch"].get("kind", "?")}}
    cp, tp = ctx.path("case.ndjson"), ctx.path("trace.ndjson")
    vlib.write_ndjson(cp, [case])
    vlib.run_harness(binp, ["replay", cp, tp])
    res, mm = vlib.judge_trace(ctx, "Trace_Glyf", "Trace_Glyf.cfg", tp, "replay")
    for m in mm:
        print("REPRODUCED class=%s want=%s got=%s" % (m["class"], vlib.short(m["want"], 300), vlib.short(m["got"], 300)))
    if not mm:
        print("not reproduced: the visit of glyph %d now conforms" % e["a"]["root"])
    return 1 if mm else 0
