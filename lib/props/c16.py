"""C16 - TrueType outlines are decoded with correct contour and composite semantics.

spec -> impl : TLC explores MC_Glyf (every on/off pattern of contours of 1..5 points, 1..4 contours, eight
               flag/coordinate encodings, points at the corners of the coordinate range, records with
               numberOfContours = 0, composite trees of depth <= 3 over every transform kind, scaled offsets,
               components placed by point numbers, composites with instructions, chains around the nesting
               bound, cycles), checks the design invariants of Glyf.tla and prints one
               CASE per glyph table (real glyf bytes). The harness lays the records out as glyf/loca, calls
               allsorts' OutlineBuilder::visit with a recording sink and logs what was delivered.
impl -> spec : glyphs of the repository's glyf fonts (records sliced out by an independent reader) are
               visited the same way.
Both logs are judged by Trace_Glyf: it parses the bytes, unpacks the points, walks the contours, composes
the component transforms (operators of Glyf.tla) and accepts the delivered commands iff every sub-path is
a valid walk of the corresponding contour.
"""
import concurrent.futures
import json

import vlib
from vlib import Violation

LEVEL = "model_checking"

ASSUMPTIONS = [
    "coordinates delivered by allsorts (f32) are logged rounded to 1/16384 unit; outlines without a matrix must "
    "match exactly, matrix-transformed ones within 1/64 unit plus the specification's own rounding bound (<= a few 1/16384)",
    "which on-curve point starts a sub-path and whether the closing straight edge is spelled out before close are "
    "left open by the property text (Dev_Start, Dev_ExplicitClose): any such walk is accepted",
    "a two-by-two component matrix is read as Apple's TrueType reference, FreeType, HarfBuzz and fontTools do: "
    "file order xscale, scale01, scale10, yscale with x' = xscale*x + scale10*y, y' = scale01*x + yscale*y",
    "a component with ARGS_ARE_XY_VALUES clear is moved so that its point argument2 (after its matrix) lies on point "
    "argument1 of what the earlier components of the same composite delivered; numbers that do not name a delivered "
    "point (first component, phantom points) are not judged (counted as 'unmodelled')",
    "SCALED_COMPONENT_OFFSET (without UNSCALED_COMPONENT_OFFSET, which wins as the default does) under a scale / x-y scale: "
    "the offset is multiplied by the matrix (OpenType text, HarfBuzz, allsorts' own composite bounding box) or by the "
    "lengths of its rows (Apple, FreeType) - either is accepted (Dev_ScaledOffsetSign; they differ only for a negative "
    "factor); under a two-by-two with off-diagonal terms it is not judged",
    "malformed records are not judged (C01): among them a record whose instructionLength runs past its end and a "
    "composite flagged WE_HAVE_INSTRUCTIONS without the instruction bytes; a 10- or 11-byte record (no "
    "instructionLength) is malformed, a 12-byte record with numberOfContours = 0 is a glyph that draws nothing",
    "USE_MY_METRICS, OVERLAP_COMPOUND, ROUND_XY_TO_GRID, OVERLAP_SIMPLE and composite instructions say nothing about the "
    "unhinted outline: they are generated and must not change what is delivered",
    "the nesting bound is the implementation's (6 levels below the visited glyph); deeper nesting and cycles must "
    "end in an error, not a panic",
    "composite children with coordinates beyond 16384 units under a matrix are outside the model's 32-bit domain and skipped (counted)",
]

STAT_KEYS = ["events", "judged_ok", "judged_err", "skipped", "root_simple", "root_composite", "root_empty",
             "with_matrix", "contours", "start_first_on", "start_last_on", "start_implied", "implied_points",
             "closing_edge_curves", "points"]


def _judge_parallel(ctx, trace, tag, parts):
    files = vlib.split_trace(trace, parts)
    stats = {k: 0 for k in STAT_KEYS}
    mism, skips, total = [], [], 0

    def one(kf):
        k, f = kf
        return vlib.judge_trace(ctx, "Trace_Glyf", "Trace_Glyf.cfg", f, "%s.%d" % (tag, k), timeout=1500, xmx="3g")
    with concurrent.futures.ThreadPoolExecutor(max_workers=len(files)) as ex:
        for res, mm in ex.map(one, list(enumerate(files))):
            total += res.distinct - 1
            mism.extend(mm)
            for s in res.printed.get("STATS", []):
                for k, v in json.loads(s).items():
                    stats[k] = stats.get(k, 0) + v
            skips.extend(json.loads(s) for s in res.printed.get("SKIP", []))
    return total, mism, skips, stats


def _key(m):
    return "visit|%s|%s" % (m.get("kind", "?"), m["class"])


def _case_features(abs_):
    """Vacuity counters measured on the generated cases (facts printed by TLC)."""
    f = []
    if abs_["kind"] == "simple":
        f.append("simple_%d_contours" % len(abs_["pats"]))
        if abs_["mode"]["ovl"]:
            f.append("flag_overlap_simple")
        if abs_["v"] == 9:
            f.append("coords_at_i16_corners")
        f.append("enc_rep_" + abs_["mode"]["rep"])
        f.append("enc_zero_" + ("same" if abs_["mode"]["same"] else abs_["mode"]["zero"]))
        f.append("enc_short" if abs_["mode"]["short"] else "enc_words")
        for p in abs_["pats"]:
            if not any(p):
                f.append("contour_all_off")
            elif not p[0] and p[-1]:
                f.append("contour_first_off_last_on")
            elif not p[0]:
                f.append("contour_first_off_last_off_some_on")
            if len(p) == 1:
                f.append("contour_single_point")
    elif abs_["kind"] == "long":
        f.append("long_run_%s_%s" % (abs_["mode"]["rep"], "ge257" if abs_["v"] >= 257 else "le256"))
    else:
        if abs_["kind"] == "zero":
            # glyph 2 is a non-empty record with numberOfContours = 0 (header, instructions, no point)
            f.append("zero_contours_visited" if not abs_["defs"] else "zero_contours_as_component")
            f.append("zero_contours_no_instructions" if abs_["v"] == 0 else
                     "zero_contours_instr_ge4" if abs_["v"] >= 4 else "zero_contours_instr_lt4")
        if abs_["defs"]:
            f.append("composite_depth_%d" % len(abs_["defs"]))
        for k, d in enumerate(abs_["defs"]):
            for j, c in enumerate(d):
                f.append("matrix_" + c["kind"])
                ident = c["kind"] == "none"
                if c["pts"]:
                    f.append("point_numbers_words" if c["words"] else "point_numbers_bytes")
                    f.append("point_numbers_" + ("plain" if ident else "with_matrix"))
                    if k > 0:
                        f.append("point_numbers_nested")
                    continue
                f.append("offset_words" if c["words"] else "offset_bytes")
                if c["a1"] < 0 or c["a2"] < 0:
                    f.append("offset_words_negative" if c["words"] else "offset_bytes_negative")
                if c["extra"] & 0x800:
                    both = bool(c["extra"] & 0x1000)
                    f.append("scaled_offset_and_unscaled_flag" if both else
                             "scaled_offset_no_matrix" if ident else "scaled_offset_with_matrix")
                    if not both and not ident and (c["xx"] < 0 or c["yy"] < 0):
                        f.append("scaled_offset_negative_factor")
                elif c["extra"] & 0x1000:
                    f.append("unscaled_offset_flag")
                if c["extra"] & 0x200:
                    f.append("use_my_metrics")
                if c["extra"] & 0x400:
                    f.append("overlap_compound")
                if c["extra"] & 0x100:
                    f.append("composite_instructions")
    return f


NEEDED_FEATURES = [
    "long_run_max_ge257", "long_run_split_ge257", "long_run_max_le256", "simple_1_contours", "simple_2_contours",
    "simple_3_contours", "enc_rep_none", "enc_rep_max", "enc_rep_zero", "enc_rep_split", "enc_zero_same", "enc_zero_word",
    "enc_zero_short+", "enc_zero_short-", "contour_all_off", "contour_first_off_last_on",
    "contour_first_off_last_off_some_on", "contour_single_point", "composite_depth_1", "composite_depth_2",
    "composite_depth_3", "matrix_none", "matrix_scale", "matrix_xy", "matrix_2x2", "offset_words", "offset_bytes",
    "offset_bytes_negative", "offset_words_negative",
    "flag_overlap_simple", "coords_at_i16_corners", "simple_4_contours",
    "zero_contours_visited", "zero_contours_as_component", "zero_contours_no_instructions", "zero_contours_instr_ge4",
    "zero_contours_instr_lt4", "point_numbers_words", "point_numbers_bytes", "point_numbers_plain",
    "point_numbers_with_matrix", "point_numbers_nested", "scaled_offset_with_matrix", "scaled_offset_no_matrix",
    "scaled_offset_and_unscaled_flag", "scaled_offset_negative_factor", "unscaled_offset_flag", "use_my_metrics",
    "overlap_compound", "composite_instructions"]

# planted self-check events: case name -> must the judge reject it?
SELFTEST = {
    "selftest-exact-as-prescribed": False,
    "selftest-exact-half-unit": True,
    "selftest-command-dropped": True,
    "selftest-error-on-wellformed": True,
    "selftest-panic-on-wellformed": True,
    "selftest-matrix-as-prescribed": False,
    "selftest-matrix-1/32": True,
    "selftest-matrix-1/128-accepted": False,
    "selftest-negative-byte-offset-as-prescribed": False,
    "selftest-negative-byte-offset-read-unsigned": True,
    "selftest-beyond-bound-error": False,
    "selftest-beyond-bound-delivered": True,
    "selftest-beyond-bound-panic": True,
    # a non-empty record with numberOfContours = 0 draws nothing
    "selftest-zero-contours-nothing-drawn": False,
    "selftest-zero-contours-something-drawn": True,
    "selftest-zero-contours-error": True,
    # SCALED_COMPONENT_OFFSET under a negative factor: both named readings are accepted, the unscaled one is not
    "selftest-scaled-offset-as-prescribed": False,
    "selftest-scaled-offset-row-lengths": False,
    "selftest-scaled-offset-ignored": True,
    # a component placed by point numbers
    "selftest-point-numbers-as-prescribed": False,
    "selftest-point-numbers-ignored": True,
}
SOURCES = ("exact", "matrix", "negbyte", "err", "zero", "scaled", "anchor")


def _planted_events(src):
    """Binding self-check events built from TLC-generated cases only (records, root and the commands the
    specification prescribes, `exp`) - nothing in them comes from allsorts, so a broken implementation cannot
    break the self-check."""
    def ev(case, tag, o):
        return {"case": tag, "ev": "Visit", "a": {"n": case["n"], "root": case["root"], "glyphs": case["glyphs"]}, "o": o}

    def delivered(cmds):
        return {"ok": True, "panic": False, "err": "", "finite": True, "cmds": cmds}

    def shifted(cmds, delta):
        x = json.loads(json.dumps(cmds))
        k = next(j for j, c in enumerate(x) if c[0] == 3)
        x[k][3] += delta
        return x

    def translated(cmds, dx):
        return [[c[0]] + ([c[1] + dx, c[2], c[3] + dx, c[4]] if c[0] == 3 else [0, 0, c[3] + dx, c[4]] if c[0] in (1, 2) else c[1:])
                for c in cmds]
    failed = {"ok": False, "panic": False, "err": "BadValue", "finite": True, "cmds": []}
    panicked = {"ok": False, "panic": True, "err": "Panic:planted", "finite": True, "cmds": []}
    ex, mx, nb, er = src["exact"], src["matrix"], src["negbyte"], src["err"]
    ze, sc, an = src["zero"], src["scaled"], src["anchor"]
    dropped = json.loads(json.dumps(ex["exp"]))
    del dropped[next(j for j, c in enumerate(dropped) if c[0] == 3)]
    out = [
        ev(ex, "selftest-exact-as-prescribed", delivered(ex["exp"])),
        ev(ex, "selftest-exact-half-unit", delivered(shifted(ex["exp"], 8192))),
        ev(ex, "selftest-command-dropped", delivered(dropped)),
        ev(ex, "selftest-error-on-wellformed", failed),
        ev(ex, "selftest-panic-on-wellformed", panicked),
        ev(mx, "selftest-matrix-as-prescribed", delivered(mx["exp"])),
        ev(mx, "selftest-matrix-1/32", delivered(shifted(mx["exp"], 512))),
        ev(mx, "selftest-matrix-1/128-accepted", delivered(shifted(mx["exp"], 128))),
        # a negative byte-sized x offset taken as unsigned moves the component by 256 units
        ev(nb, "selftest-negative-byte-offset-as-prescribed", delivered(nb["exp"])),
        ev(nb, "selftest-negative-byte-offset-read-unsigned", delivered(translated(nb["exp"], 256 * 16384))),
        ev(er, "selftest-beyond-bound-error", failed),
        ev(er, "selftest-beyond-bound-delivered", delivered([])),
        ev(er, "selftest-beyond-bound-panic", panicked),
        ev(ze, "selftest-zero-contours-nothing-drawn", delivered([])),
        ev(ze, "selftest-zero-contours-something-drawn", delivered(ex["exp"])),
        ev(ze, "selftest-zero-contours-error", failed),
        ev(sc, "selftest-scaled-offset-as-prescribed", delivered(sc["exp"])),
        ev(sc, "selftest-scaled-offset-row-lengths", delivered(sc["hyp"])),
        ev(sc, "selftest-scaled-offset-ignored", delivered(sc["unsc"])),
        ev(an, "selftest-point-numbers-as-prescribed", delivered(an["exp"])),
        ev(an, "selftest-point-numbers-ignored", delivered(an["noanc"])),
    ]
    for k, x in enumerate(out):
        x["i"] = 10 ** 8 + 1 + k
    assert {x["case"] for x in out} == set(SELFTEST)
    return out


def _pick_sources(src, c):
    """Remember the first generated case of each shape the self-check needs."""
    a = c["abs"]
    has_q = any(cmd[0] == 3 for cmd in c["exp"])
    if "exact" not in src and a["kind"] == "simple" and c["st"] == "ok" and has_q and len(a["pats"]) == 2:
        src["exact"] = c
    if a["kind"] == "composite" and len(a["defs"]) == 1 and len(a["defs"][0]) == 1 and c["st"] == "ok" and has_q:
        d = a["defs"][0][0]
        plain = not d["pts"] and not d["extra"] & 0x800
        if "matrix" not in src and d["kind"] == "scale" and plain:
            src["matrix"] = c
        if "negbyte" not in src and d["kind"] == "none" and not d["words"] and d["a1"] < 0 and plain:
            src["negbyte"] = c
    if "err" not in src and c["st"] == "err":
        src["err"] = c
    if "zero" not in src and a["kind"] == "zero" and not a["defs"] and a["v"] >= 4 and c["st"] == "ok":
        src["zero"] = c
    if a["kind"] == "composite" and len(a["defs"]) == 1 and c["st"] == "ok":
        d = a["defs"][0]
        if ("scaled" not in src and len(d) == 1 and d[0]["extra"] == 0x800 and d[0]["kind"] != "none"
                and c["hyp"] != c["exp"] and c["unsc"] != c["exp"] and c["unsc"] != c["hyp"]):
            src["scaled"] = c
        if "anchor" not in src and any(x["pts"] for x in d) and c["noanc"] != c["exp"] and c["exact"]:
            src["anchor"] = c


def run(ctx):
    """Violations take precedence over tool problems: what the judge (or an earlier stage) found is reported
    (exit 1) even when a later stage, a self-check or a vacuity guard fails; a tool error (exit 2) is raised only
    when there is no violation to report."""
    violations, cov, deferred = [], {}, []
    try:
        _run(ctx, violations, cov, deferred)
    except Exception as e:        # ToolError, or a driver exception on output it did not expect
        deferred.append(e)
    if deferred:
        known = vlib.load_known(ctx.prop)
        if not any(v.key not in known for v in violations):
            raise deferred[0]
        ctx.note("tool problem after violations had been found; reporting the violations. Problem: %s" % str(deferred[0])[:1500])
        for k, v in (("states", 0), ("transitions", 0), ("traces_validated_against_impl", 0), ("samples", [])):
            cov.setdefault(k, v)
        cov["incomplete_run"] = [str(e)[:500] for e in deferred]
    vlib.finish(ctx, LEVEL, cov, violations, ASSUMPTIONS)


def _run(ctx, violations, cov, deferred):
    binp = vlib.build_harness("c16_glyf")
    cfg = "MC_Glyf_quick.cfg" if ctx.quick else "MC_Glyf_thorough.cfg"
    cases_path = ctx.path("cases.ndjson")
    n_cases = [0]
    features = {}
    src = {}
    n_err_expected = [0]
    with open(cases_path, "w") as fc:
        def sink(tag, payload):
            if tag != "CASE":
                return
            fc.write(payload + "\n")
            n_cases[0] += 1
            c = json.loads(payload)
            for f in set(_case_features(c["abs"])):
                features[f] = features.get(f, 0) + 1
            if c["st"] == "err":
                n_err_expected[0] += 1
            if len(src) < len(SOURCES):
                _pick_sources(src, c)
        mc = vlib.run_tlc(ctx, "MC_Glyf", cfg, "mc", workers=4, timeout=600 if ctx.quick else 2400, sink=sink)
    ctx.note("MC_Glyf: %d states generated, %d distinct, %d cases, design invariants hold (%.1fs)" %
             (mc.generated, mc.distinct, n_cases[0], mc.wall))
    # guards on the generator: TLC output only
    if n_cases[0] == 0:
        raise vlib.ToolError("no CASE lines generated")
    missing = [k for k in NEEDED_FEATURES if features.get(k, 0) == 0]
    if missing or n_err_expected[0] == 0:
        raise vlib.ToolError("generator is vacuous for: %s (expected-error cases: %d)" % (missing, n_err_expected[0]))
    if len(src) < len(SOURCES):
        raise vlib.ToolError("self-check: the generator produced no case of shape %s" % sorted(set(SOURCES) - set(src)))
    sample_case = {k: src["exact"][k] for k in ("abs", "n", "root", "st", "exp")}
    cov.update({"states": mc.distinct, "tlc_states_generated": mc.generated, "generated_cases": n_cases[0],
                "generated_cases_expected_error": n_err_expected[0], "generated_case_features": features,
                "samples": [sample_case]})

    # spec -> impl: replay the generated glyph tables on allsorts
    gen_trace = ctx.path("gen_trace.ndjson")
    rep = vlib.run_harness(binp, ["replay", cases_path, gen_trace], hang_path=gen_trace + ".hang")
    ctx.note("replay: %s" % json.dumps(rep))
    cov.update({"transitions": rep.get("cases", 0), "traces_validated_against_impl": rep.get("cases", 0)})

    # impl -> spec: glyphs of the repository fonts. If this stage fails the generated direction is still judged.
    rec_trace = ctx.path("rec_trace.ndjson")
    sample = 60 if ctx.quick else 0
    try:
        rec = vlib.run_harness(binp, ["record", ctx.seed, sample, rec_trace])
        ctx.note("record: %s" % json.dumps(rec))
    except vlib.ToolError as e:
        deferred.append(e)
        rec = {"glyphs": 0, "fonts": 0, "composites": 0, "nested_composites": 0}
        open(rec_trace, "w").close()
    n_rec = sum(1 for _ in open(rec_trace))
    n_gen = sum(1 for _ in open(gen_trace))

    planted = _planted_events(src)
    trace = ctx.path("trace.ndjson")
    sample_rec = None
    with open(trace, "w") as out:
        for p in (gen_trace, rec_trace):
            with open(p) as f:
                for ln in f:
                    out.write(ln)
                    if p == rec_trace and sample_rec is None:
                        sample_rec = json.loads(ln)
        for x in planted:
            out.write(json.dumps(x, separators=(",", ":")) + "\n")
    total, mism, skips, stats = _judge_parallel(ctx, trace, "judge", 6 if ctx.quick else 10)
    ctx.note("judge: %d events, %d mismatches, %d not judged, stats %s" % (total, len(mism), len(skips), json.dumps(stats)))

    # violations first: fetch the events of the mismatching indices so that each replay file is self-contained
    bad = {m["i"]: m for m in mism if not m["case"].startswith("selftest-")}
    events = {}
    if bad:
        with open(trace) as f:
            for ln in f:
                # cheap pre-filter on the index
                e = None
                if '"i":' in ln:
                    e = json.loads(ln)
                if e is not None and e["i"] in bad:
                    events[e["i"]] = e
    per_key = {}
    for i, m in sorted(bad.items()):
        key = _key(m)
        per_key[key] = per_key.get(key, 0) + 1
        if per_key[key] > 1:
            continue          # one violation (and replay file) per key; the count is reported below
        srcname = "generated" if m["case"].startswith("gen/") else "recorded"
        what = "%s %s: %s (want %d commands, got %d; first commands want %s got %s)" % (
            srcname, m["case"], m["class"], m["nwant"], m["ngot"], vlib.short(m["want"][:3], 150), vlib.short(m["got"][:3], 150))
        violations.append(Violation(key, what, {"source": srcname, "mismatch": m, "event": events.get(i)}))
    for k, n in sorted(per_key.items()):
        ctx.note("mismatch class %s: %d events" % (k, n))

    skip_why = {}
    for s in skips:
        skip_why[s["why"]] = skip_why.get(s["why"], 0) + 1
    cov.update({
        "transitions": total,
        "traces_validated_against_impl": n_gen + n_rec,
        "generated_revisits_on_same_table": rep.get("revisits", 0),
        "generated_visits_under_overshooting_loca": rep.get("overshoots", 0),
        "samples": [sample_case] + ([{"case": sample_rec["case"], "root": sample_rec["a"]["root"],
                                      "cmds_first": sample_rec["o"]["cmds"][:6]}] if sample_rec else []),
        "generated_visits_not_ok": rep.get("visits_not_ok", 0),
        "recorded_fonts": rec["fonts"],
        "recorded_glyphs": n_rec,
        "recorded_composites": rec["composites"],
        "recorded_nested_composites": rec["nested_composites"],
        "recorded_fonts_not_opened": rec.get("fonts_not_readable", 0),
        "recorded_glyf_tables_not_readable": rec.get("glyf_tables_not_readable", 0),
        "events_judged": total,
        "events_not_judged": skip_why,
        "judge_statistics": stats,
        "mismatch_classes": per_key,
        "exhaustive": True,
        "explanation": "exhaustive over the bounded model (config %s); repository glyphs: %s" %
                       (cfg, "seeded sample of %d per font plus all nested / matrix composites" % sample if sample else "all"),
    })

    # the remaining guards concern the tool itself (specification, harness inputs, driver); they are raised only
    # now, and run() lets violations win over them
    if n_gen != n_cases[0] + rep.get("revisits", 0) + rep.get("overshoots", 0) or total != n_gen + n_rec + len(planted):
        raise vlib.ToolError("judge consumed %d events, expected %d generated cases + %d revisits + %d overshoot visits + %d recorded + %d planted" % (
            total, n_cases[0], rep.get("revisits", 0), rep.get("overshoots", 0), n_rec, len(planted)))
    if rep.get("overshoots", 0) == 0:
        raise vlib.ToolError("vacuity: no generated case was visited under an overshooting loca (Dev_LocaOvershoot)")
    seen_self = {m["case"] for m in mism if m["case"].startswith("selftest-")}
    want_self = {k for k, rejected in SELFTEST.items() if rejected}
    if seen_self != want_self:
        raise vlib.ToolError("binding self-check failed: rejected %s, expected exactly %s" % (sorted(seen_self), sorted(want_self)))
    cov["binding_selfcheck"] = "%d planted non-conforming deliveries rejected, %d planted conforming ones accepted (all built from TLC output)" % (
        len(want_self), len(SELFTEST) - len(want_self))
    # statistics computed by the judge from the glyph records (the specification's own parse), not from deliveries
    for k in ("start_first_on", "start_last_on", "start_implied", "implied_points", "closing_edge_curves",
              "with_matrix", "judged_err", "root_composite", "root_simple"):
        if stats.get(k, 0) == 0:
            raise vlib.ToolError("judge statistics are vacuous for %s" % k)
    if n_rec == 0:
        raise vlib.ToolError("no glyph recorded from the repository fonts: %s" % json.dumps(rec))


def replay(ctx, path):
    d = json.load(open(path))["detail"]
    e = d["event"]
    binp = vlib.build_harness("c16_glyf")
    case = {"n": e["a"]["n"], "root": e["a"]["root"], "glyphs": e["a"]["glyphs"], "abs": {"kind": d["mismatch"].get("kind", "?")}}
    cp, tp = ctx.path("case.ndjson"), ctx.path("trace.ndjson")
    vlib.write_ndjson(cp, [case])
    vlib.run_harness(binp, ["replay", cp, tp])
    res, mm = vlib.judge_trace(ctx, "Trace_Glyf", "Trace_Glyf.cfg", tp, "replay")
    for m in mm:
        print("REPRODUCED class=%s want=%s got=%s" % (m["class"], vlib.short(m["want"], 300), vlib.short(m["got"], 300)))
    if not mm:
        print("not reproduced: the visit of glyph %d now conforms" % e["a"]["root"])
    return 1 if mm else 0
