"""C03 - results depend only on the arguments, not on earlier calls.

design       : MC_FontCache with the intended cache keying (CodeKeys = FALSE): AllPure holds for
               every history of <= MaxDepth state-changing calls; ModelExact (a stale read is the
               only way to be impure) holds for both keyings.  Three families of fonts: intact,
               dmg (a lazily loaded table is present but its load fails: the slot must stay
               NotLoaded, the load is retried and fails the same way), collide (GSUB/GPOS > 64 KiB
               with Coverage/ClassDef objects at positions congruent mod 2^16 and 2^8 and lookups at
               indices congruent mod 2^8: ReadCache keyed by absolute position, lookup cache by index).
               Defect classes the design excludes (a failed load stored as "absent"; ReadCache keyed
               by a u16/u8 truncation of the position or by the offset relative to the sub-table;
               lookup cache keyed by a u8 truncation of the index) are switched on in three small
               runs: TLC must then predict impure histories, which shows that the universe of fonts
               and calls can expose each class.
spec -> impl : MC_FontCache with the code's keying prints, per reachable cache state, the font, a
               history and the fan of all calls; the harness runs history + call on one Font and the
               call on a fresh Font - on nine intact fonts, on every damaged variant of six base fonts
               (table truncated to 3 bytes / not delivered by the provider), on collide fonts built
               from the layout the CASE carries - and records whether the results differ.
impl -> spec : random long histories over a richer universe (one third each on intact fonts, fonts
               with damaged tables, collide fonts with a seed-dependent layout), every call compared
               with fresh; pure operations repeated in two processes.
Trace_FontCache replays every history through the model: a difference the model explains by a
stale slot is reported under that slot's name, one it does not explain as unpredicted.

Round 2 added three families (and two defect classes for the vacuity runs):
img     : fonts carrying every combination of two, three (thorough: four) image tables (SVG, CBDT/CBLC, sbix,
          EBDT/EBLC) that all hold an image of the glyph asked for; the selection is modelled as a function of the
          font's tables AND the filter; ALL histories  [query] (filter [query]){1..3}  are generated (the path is part
          of the VIEW), compared with a fresh font carrying the final filter.  Defect class ImgKeepMode.
fill    : the model's caches are unbounded maps; one long history per keyed cache fills it far beyond any plausible
          capacity (distinct (script, language, mask) keys incl. the fraction path that holds two indices at once;
          languages under complex scripts; hundreds of lookups / Coverage positions) and probes old and new keys at
          checkpoints.  Defect class LookupsCap (bounded cached_lookups with a scratch slot).
scopes  : the ReadCache read through scopes derived by offset, offset_length, ReadCtxt::read_scope and nested
          windows - the key is the absolute position whatever the route.
Round 3 added one family (and two defect classes for the vacuity runs):
var     : a synthesized variable font (two axes) whose GSUB has an rvrn feature per script - substituting lookups, a
          lookup index the lookup list does not have, a Lookup table of a non-existent type, a sub-table that does not
          parse (skipped) - next to frac / liga / calt / locl and the Arabic forms, whose GPOS value records carry
          VariationIndex tables and whose GDEF has an item variation store (four regions); ALL histories of shaping
          calls under four scripts, no tuple / the default instance / other tuples, masks and custom lists, up to the
          depth (the path is part of the VIEW) - calls that FAIL half-way are part of the histories.  Defect classes
          FailKeep (working state of a failed call survives) and RegionMemo (a region scalar memoised without the tuple).
Round 4 added two families (and two defect classes for the vacuity run `memo`):
strike  : fonts whose one bitmap table (EBLC/EBDT, CBLC/CBDT) has several strikes that differ in size, bit depth and glyph
          range; lookup_glyph_image(glyph, size, bit depth limit) is modelled with the strike selection of
          CBLCTable::find_strike; ALL histories of image lookups and filter changes up to the depth.  Defect class NegCache
          (a per-glyph memo of "no image").
pairs   : a font whose GPOS PairPos lookups have several sub-tables with overlapping Coverages (format 1 exceptions before
          and after a format 2 class table); the model decides per pair of neighbours which sub-table handles it (the first
          in order); ALL histories of shaping calls over twelve texts up to the depth.  Defect class SubMRU (the parsed
          lookup remembers the sub-table that matched last).
          For both families the harness also reports what the FRESH font answered in the model's vocabulary (size and depth
          of the bitmap; kerning per glyph) and the judge compares it with the model (UNBOUND lines, a deferred self-check).
Order of verdicts: checks that depend only on TLC data / harness inputs raise ToolError at once; checks that
depend on what allsorts answered are deferred until the violations are known and only raised when there is none.
"""
import concurrent.futures
import json
import subprocess

import vlib
from vlib import Violation

LEVEL = "model_checking"
ASSUMPTIONS = [
    "results are compared by value through their Debug rendering (glyph ids, unicodes, flags, ligature component "
    "positions, kerning, placement, advances, names); image lookups through ppem and metrics",
    "a fresh font carries the same embedded-image filter as the history's last set_embedded_image_filter "
    "(configuration is an argument, not history)",
    "nine intact fonts: a synthesized variable font whose GSUB FeatureVariations swap the liga lookup on half of the "
    "axis, two synthesized fonts carrying every lazily loaded table kind (one without GSUB, so that morx is used), "
    "sbix and SVG fixtures, Lohit Devanagari, Noto Naskh Arabic, Inter VF, Open Sans",
    "damaged tables: GSUB, GPOS, GDEF, morx, kern, vhea, vmtx and the image tables of six base fonts, served through a "
    "wrapping FontTableProvider that truncates the table (3 bytes; half, random histories only) or fails to deliver it; "
    "Font::new succeeds; a variant whose load does not fail on a fresh font is dropped and counted",
    "a panic inside a call ends the life of that Font object: the call is judged, later calls are compared after the "
    "history without it (panics are C01's to report)",
    "collide fonts: the texts shaped on them make every contextual rule match, as the model assumes for nested lookups",
    "the model abstracts text/script/mask/tuple arguments to identities; masks are chosen so that they stay distinct "
    "after intersection with the font's supported features",
    "img fonts: synthesized TrueType fonts with every combination of 2..4 of SVG, CBDT/CBLC, sbix, EBDT/EBLC, each table "
    "holding an image of glyphs 1..5 with its own payload and strike size; an image result is ppem, metrics and a digest of "
    "the image data; the fresh font carries the history's last filter",
    "fill fonts: a synthesized GSUB with 14 single-substitution features (frac, vert, rvrn first) under DFLT/latn and two "
    "language systems; a synthesized GSUB+GPOS with one lookup and one Coverage per feature tag L001..; Lohit Devanagari and "
    "Noto Naskh Arabic under languages nobody has heard of; scripts / languages nobody has heard of fall back to DFLT / the "
    "default language system, as OpenType says",
    "scopes: the subject is a pair of ReadCache objects (Coverage, ClassDef) over one buffer; fresh = new caches",
    "strike fonts: synthesized TrueType fonts with one EBLC/EBDT or CBLC/CBDT pair of four strikes (sizes 12 and 24; bit depths "
    "1, 8, 32; overlapping glyph ranges; index format 1, image format 1); random histories: 3-6 random strikes; bit depth "
    "limits One..ThirtyTwo; sizes <= 255",
    "pairs font: a synthesized GPOS with two PairPos lookups (kern: format 1, format 2, format 1; dist: format 2, format 1) whose "
    "Coverages overlap; value format 1 = xAdvance only; texts of upper-case letters, no marks, no GDEF",
    "var font: a synthesized TrueType font with fvar (wght, wdth), GSUB / GPOS with one Script table per script (latn, cyrl, "
    "grek, arab), GDEF 1.3 with an item variation store of four regions; tuples are passed as normalised coordinates; "
    "a shaping call that returns Err((error, infos)) is a call like any other: error and infos are both part of the value",
]


def run(ctx):
    binp = vlib.build_harness("c03_purity")
    good = vlib.run_tlc(ctx, "MC_FontCache", "MC_FontCache_good.cfg", "mc_good", workers=4, timeout=900)
    ctx.note("MC_FontCache[intended keys]: %d states, AllPure and ModelExact hold (%.1fs)" % (good.distinct, good.wall))
    cfg = "MC_FontCache_code_quick.cfg" if ctx.quick else "MC_FontCache_code_thorough.cfg"
    cases_path = ctx.path("cases.ndjson")
    n_cases = [0]
    n_pred = [0]
    sample = []
    with open(cases_path, "w") as fc:
        def sink(tag, payload):
            if tag == "CASE":
                fc.write(payload + "\n")
                n_cases[0] += 1
                n_pred[0] += payload.count('"impure":true')
                if len(sample) < 1 and '"impure":true' in payload:
                    c = json.loads(payload)
                    sample.append({"path": c["path"], "impure_calls": [f for f in c["fan"] if f["impure"]][:2]})
        code = vlib.run_tlc(ctx, "MC_FontCache", cfg, "mc_code", workers=4, timeout=2400, sink=sink)
        # img once more with all 16 filters (raw relations between filters that the font's tables do not tell apart)
        code2 = vlib.run_tlc(ctx, "MC_FontCache", "MC_FontCache_code_imgall.cfg" if ctx.quick else "MC_FontCache_code_imgall_thorough.cfg",
                             "mc_code_imgall", workers=4, timeout=1500, sink=sink)
    ctx.note("MC_FontCache[code keys]: %d + %d states, %d cases, %d (state, call) pairs predicted impure (%.1fs + %.1fs)"
             % (code.distinct, code2.distinct, n_cases[0], n_pred[0], code.wall, code2.wall))
    # vacuity of the new defect classes: with a class switched on, TLC must predict impure histories
    defect_pred = {}
    defect_states = 0
    defect_generated = 0
    modes = (("u16", ("lazy.failedLoad", "readCache.position")),
             ("u8", ("readCache.position", "lookupCache.index")),
             ("rel", ("readCache.position",)),
             ("img", ("images.filter",)),
             ("cap", ("lookups.capacity",)),
             ("var", ("scratch.failedCall", "gdef.regionScalar")),
             ("memo", ("images.negativeGlyph", "lookupCache.lastSubtable")))

    def defect_run(mode):
        cnt = {}

        def dsink(tag, payload):
            if tag == "CASE":
                for f in json.loads(payload)["fan"]:
                    for c in f["causes"]:
                        cnt[c] = cnt.get(c, 0) + 1
        r = vlib.run_tlc(ctx, "MC_FontCache", "MC_FontCache_defect_%s.cfg" % mode, "mc_defect_" + mode, workers=2,
                         timeout=600, sink=dsink)
        return r, cnt
    # the six small runs three at a time, two workers each (6 cores in all)
    with concurrent.futures.ThreadPoolExecutor(max_workers=3) as pool:
        results = list(pool.map(defect_run, [m for m, _ in modes]))
    for (mode, want), (r, cnt) in zip(modes, results):
        defect_states += r.distinct
        defect_generated += r.generated
        for c in want:
            if cnt.get(c, 0) == 0:
                raise vlib.ToolError("vacuous universe: defect run %s predicts no impure call with cause %s" % (mode, c))
            defect_pred["%s/%s" % (mode, c)] = cnt[c]
    ctx.note("MC_FontCache[defect classes on]: impure (state, call) pairs predicted per class: %s" % json.dumps(defect_pred, sort_keys=True))

    gen_trace = ctx.path("gen_trace.ndjson")
    rep = vlib.run_harness(binp, ["replay", cases_path, gen_trace], timeout=3000)
    rec_trace = ctx.path("rec_trace.ndjson")
    rec = vlib.run_harness(binp, ["record", ctx.seed, 180 if ctx.quick else 3000, 40 if ctx.quick else 80,
                                  300 if ctx.quick else 3000, rec_trace], timeout=3000)
    selfchecks = rep.pop("collide_selfcheck", []) + rec.pop("collide_selfcheck", [])
    img_self = rep.pop("img_selfcheck", []) + rec.pop("img_selfcheck", [])
    img_fresh = rep.pop("img_fresh_results", []) + rec.pop("img_fresh_results", [])
    fill_self = rep.pop("fill_selfcheck", [])
    fill_fresh = rep.pop("fill_fresh_results", [])
    var_self = rep.pop("var_selfcheck", []) + rec.pop("var_selfcheck", [])
    var_fresh = rep.pop("var_fresh_results", []) + rec.pop("var_fresh_results", [])
    strike_self = rep.pop("strike_selfcheck", []) + rec.pop("strike_selfcheck", [])
    pairs_self = rep.pop("pairs_selfcheck", []) + rec.pop("pairs_selfcheck", [])
    pairs_fresh = rep.pop("pairs_fresh_results", []) + rec.pop("pairs_fresh_results", [])
    facts = rep.get("input_facts", {})
    ctx.note("replay: %s" % json.dumps(rep, sort_keys=True))
    ctx.note("record: %s" % json.dumps(rec, sort_keys=True))
    # deferred: checks that depend on what allsorts answered - a badly broken tree must show as a violation, not as
    # a tool error, so these are raised only when no violation was found
    deferred = []
    # generator self-checks: the synthesized fonts are what the model says they are (own reader, inputs only)
    if len(selfchecks) < 6:
        raise vlib.ToolError("collide fonts missing: %s" % json.dumps(selfchecks))
    for sc in selfchecks:
        if (sc["objects_found_at_position"] != sc["objects_expected"] or sc["objects_expected"] == 0
                or sc["tables_over_64k"] < 1 or sc["alias_pairs_u16"] < 2 or sc["alias_pairs_u8"] <= sc["alias_pairs_u16"]
                or sc["alias_pairs_rel"] < 1 or sc["alias_pairs_lookup_index_u8"] < 1):
            raise vlib.ToolError("collide font does not have the layout the model dictates: %s" % json.dumps(sc))
        if sc["distinct_results"] != sc["feature_sets"] or not sc["second_language_system_effective"]:
            deferred.append("collide font: the features do not give pairwise different results: %s" % json.dumps(sc))
    n_img_fonts = 10 if ctx.quick else 11
    if len({x["imgs"] for x in img_self}) < n_img_fonts:
        raise vlib.ToolError("img fonts missing: %s" % json.dumps(img_self))
    for sc in img_self:
        if sc["tables_found_with_payload"] != sc["tables_expected"] or sc["tables_expected"] < 2 or sc["stray_tables"]:
            raise vlib.ToolError("img font does not carry the image tables the model dictates: %s" % json.dumps(sc))
    for sc in img_fresh:
        if not (sc["one_image_per_selection"] and sc["none_under_empty_selection"] and sc["distinct_images"] == sc["selections"]):
            deferred.append("img font: the image found is not a function of the table the model selects: %s" % json.dumps(sc))
    if {x["sub"] for x in fill_self} != {"keys", "lookups"}:
        raise vlib.ToolError("fill fonts missing: %s" % json.dumps(fill_self))
    for sc in fill_self:
        if sc["objects_found_at_position"] != sc["objects_expected"] or sc["distinct_coverage_positions"] != sc["objects_expected"]:
            raise vlib.ToolError("fill font does not have the layout the model dictates: %s" % json.dumps(sc))
    for sc in fill_fresh:
        if sc["distinct_results"] != sc["feature_sets"]:
            deferred.append("fill font: the features do not give pairwise different results: %s" % json.dumps(sc))
    if len({x["font"] for x in var_self}) < 3 or not any(x["feature_variations"] for x in var_self) or not any(x["damaged"] for x in var_self):
        raise vlib.ToolError("var fonts missing: %s" % json.dumps(var_self))
    for sc in var_self:
        if (not sc["layout_confirmed"] or sc["facts_confirmed"] < 20 or not sc["has_fvar"] or not sc["has_gdef"] or sc["delta_rows"] < 2
                or sc["distinct_adjustment_vectors_over_tuples"] < 4 or len(sc["scripts_whose_rvrn_fails"]) < 2
                or len(sc["scripts_whose_rvrn_substitutes"]) < 2 or not sc["fvt_matches_condition"]):
            raise vlib.ToolError("var font does not have the layout the model dictates: %s" % json.dumps(sc))
    for sc in var_fresh:
        if not (sc["one_positioning_per_vector"] and sc["distinct_positionings"] == sc["expected_distinct_positionings"]
                and sc["feature_variations_effective"] and sc["failing_rvrn_reports_error"]
                and sc["failing_main_stage_reports_error"] and sc["rvrn_and_frac_effective"] and sc["arabic_forms_depend_on_rvrn"]):
            deferred.append("var font: shaping on a fresh font does not depend on tuple / rvrn / broken lookups as the layout says: %s" % json.dumps(sc))
    if len(strike_self) < 4 or len(pairs_self) < 3:
        raise vlib.ToolError("strike / pairs fonts missing: %s / %s" % (json.dumps(strike_self), json.dumps(pairs_self)))
    for sc in strike_self:
        if not sc["declared_as_dictated"] or sc["bitmaps_found"] != sc["bitmaps_expected"] or sc["bitmaps_expected"] == 0:
            raise vlib.ToolError("strike font does not have the strikes the model dictates: %s" % json.dumps(sc))
    if not any(sc["distinct_bit_depths"] >= 3 and sc["glyphs_only_in_deeper_strikes"] >= 2 for sc in strike_self):
        raise vlib.ToolError("vacuous: no strike font whose strikes differ in bit depth: %s" % json.dumps(strike_self))
    for sc in pairs_self:
        if (not sc["layout_confirmed"] or not sc["objs_match_sub_tables"] or sc["facts_confirmed"] < 10
                or sc["pairs_handled_by_several_sub_tables"] < 1 or sc["pairs_handled_by_a_later_sub_table_only"] < 1):
            raise vlib.ToolError("pairs font does not have the layout the model dictates: %s" % json.dumps(sc))
    for sc in pairs_fresh:
        if sc["kerning_as_first_handling_sub_table"] != sc["two_letter_texts"]:
            deferred.append("pairs font: kerning on a fresh font is not that of the first sub-table that handles the pair: %s" % json.dumps(sc))
    rfacts = rec.get("input_facts", {})
    if (facts.get("strike_shallow_then_deeper_limit", 0) == 0 or facts.get("strike_two_sizes", 0) == 0
            or facts.get("pairs_later_sub_table_then_overlapping_pair", 0) == 0
            or rfacts.get("strike_shallow_then_deeper_limit", 0) == 0 or rfacts.get("strike_two_sizes", 0) == 0
            or rfacts.get("pairs_later_sub_table_then_overlapping_pair", 0) == 0):
        raise vlib.ToolError("vacuous run: strike / pairs histories that can expose a per-glyph or per-lookup memo are missing: %s / %s"
                             % (json.dumps(facts), json.dumps(rfacts)))
    # vacuity from inputs: the histories that can expose the classes were generated and executed
    fk = facts.get("fill_distinct_keys_before_probe", {})
    need = 100
    if (facts.get("img_widen_after_query", 0) == 0 or facts.get("img_narrow_after_query", 0) == 0
            or facts.get("img_incomparable_after_query", 0) == 0 or facts.get("img_same_filter_after_query", 0) == 0
            or fk.get("keys", 0) < need or fk.get("complex", 0) < need or fk.get("lookups", 0) < need
            or facts.get("fill_frac_probes_on_new_key_after_100_keys", 0) == 0
            or sorted(facts.get("scopes_routes_in_paths", [])) != ["nested", "offset", "offset_length", "read_scope"]
            or min(rec.get("fill_random_distinct_arguments", {"-": 0}).values()) < need
            or rec.get("fill_random_fraction_calls", 0) == 0
            or facts.get("var_failed_rvrn_then_substituting_rvrn", 0) == 0 or facts.get("var_failed_main_stage_then_shape", 0) == 0
            or facts.get("var_two_tuples_with_different_adjustments", 0) == 0
            or rec.get("input_facts", {}).get("var_failed_rvrn_then_substituting_rvrn", 0) == 0
            or rec.get("input_facts", {}).get("var_two_tuples_with_different_adjustments", 0) == 0):
        raise vlib.ToolError("vacuous run: image-filter, cache-filling or scope-route histories missing: %s / %s"
                             % (json.dumps(facts), json.dumps(rec.get("fill_random_distinct_arguments"))))
    hb = rep.get("histories_by_family", {})
    rhb = rec.get("histories_by_family", {})
    if (any(hb.get(f, 0) == 0 for f in ("dmg", "collide", "img", "fill", "scopes", "var", "strike", "pairs"))
            or any(rhb.get(f, 0) == 0 for f in ("dmg", "collide", "img", "scopes", "fill-random", "var", "strike", "pairs"))):
        raise vlib.ToolError("vacuous run: a family of histories was not executed: %s / %s" % (json.dumps(hb), json.dumps(rhb)))
    if (rep.get("damaged_probes_reporting_the_error", 0) == 0 or rep.get("damaged_variants", 0) < 20
            or rec.get("damaged_calls_reporting_the_error", 0) == 0):
        deferred.append("damaged-table fonts do not report their damage: %s" % json.dumps(
            {k: rep.get(k) for k in ("damaged_probes_reporting_the_error", "damaged_variants", "damaged_variants_dropped")}))
    # pure operations: two runs in-process, and a second process
    r1, r2 = ctx.path("repeat1.ndjson"), ctx.path("repeat2.ndjson")
    vlib.run_harness(binp, ["repeat", ctx.seed, r1], timeout=1500)
    vlib.run_harness(binp, ["repeat", ctx.seed, r2], timeout=1500)
    groups = {}
    for f in (r1, r2):
        for x in vlib.read_ndjson(f):
            groups.setdefault((x["font"], x["op"]), []).append(x["digest"])
    trace = ctx.path("trace.ndjson")
    n_events = 0
    with open(trace, "w") as f:
        for src in (gen_trace, rec_trace):
            for ln in open(src):
                f.write(ln)
                n_events += 1
        i = 10 ** 7
        for (font, op), ds in sorted(groups.items()):
            i += 1
            f.write(json.dumps({"i": i, "case": "repeat/%s/%s" % (font, op), "ev": "Repeat", "a": {"font": font, "op": op},
                                "o": {"digests": ds}}) + "\n")
        # binding self-check: (1) a call flagged 'differs' that the model cannot explain, (2) unequal digests
        plain = {"fam": "intact", "damaged": [], "lookups": [], "imgs": 15, "sub": ""}
        f.write(json.dumps({"i": 10 ** 8, "case": "selftest-1", "ev": "Init", "a": {"font": plain}, "o": {}}) + "\n")
        f.write(json.dumps({"i": 10 ** 8 + 1, "case": "selftest-1", "ev": "Call",
                            "a": {"call": {"op": "HAdvance", "g": 1}, "probe": False}, "o": {"differs": True}}) + "\n")
        f.write(json.dumps({"i": 10 ** 8 + 2, "case": "selftest-2", "ev": "Repeat", "a": {"font": "x", "op": "subset"},
                            "o": {"digests": ["a:1", "a:1", "b:1"]}}) + "\n")
        # (3) a damaged table whose accessor answers differently the second time, (4) a collide font on which
        # shaping with one feature differs after shaping with another: the model of the code explains neither
        f.write(json.dumps({"i": 10 ** 8 + 3, "case": "selftest-3", "ev": "Init",
                            "a": {"font": {"fam": "dmg", "damaged": ["gpos"], "lookups": [], "imgs": 7, "sub": ""}}, "o": {}}) + "\n")
        tq = {"op": "Table", "k": "gpos"}
        f.write(json.dumps({"i": 10 ** 8 + 4, "case": "selftest-3", "ev": "Call", "a": {"call": tq, "probe": False}, "o": {"differs": False}}) + "\n")
        f.write(json.dumps({"i": 10 ** 8 + 5, "case": "selftest-3", "ev": "Call", "a": {"call": tq, "probe": False}, "o": {"differs": True}}) + "\n")
        cases = vlib.read_ndjson(cases_path)
        cf = [c for c in cases if c["font"]["fam"] == "collide" and len(c["path"]) == 1]
        if not cf:
            raise vlib.ToolError("no collide case generated")
        f.write(json.dumps({"i": 10 ** 8 + 6, "case": "selftest-4", "ev": "Init", "a": {"font": cf[0]["font"]}, "o": {}}) + "\n")
        f.write(json.dumps({"i": 10 ** 8 + 7, "case": "selftest-4", "ev": "Call", "a": {"call": cf[0]["path"][0], "probe": False}, "o": {"differs": False}}) + "\n")
        other_call = [x["call"] for x in cf[0]["fan"] if x["call"]["op"] == "Shape" and x["call"] != cf[0]["path"][0]][0]
        f.write(json.dumps({"i": 10 ** 8 + 8, "case": "selftest-4", "ev": "Call", "a": {"call": other_call, "probe": True}, "o": {"differs": True}}) + "\n")
        # (5) an image query that differs after narrow filter, query, wider filter; (6) a fraction-path probe that
        # differs after a long fill; (7) a cached read that differs after a read through another route: taken from
        # TLC's cases, the model of the code explains none of them
        k = 10 ** 8 + 10
        for tag, pick in (("selftest-5", lambda c: c["font"]["fam"] == "img" and len(c["path"]) >= 3 and c["path"][-1]["op"] == "SetFilter"),
                          ("selftest-6", lambda c: c["font"]["fam"] == "fill" and c["font"]["sub"] == "keys" and len(c["path"]) >= 100),
                          ("selftest-7", lambda c: c["font"]["fam"] == "scopes" and len(c["path"]) >= 1),
                          # (8) a tuple-shaping call that differs after a call that failed half-way; (9) positioning under
                          # one tuple that differs after positioning under another
                          ("selftest-8", lambda c: c["font"]["fam"] == "var" and c["font"]["sub"] == "" and len(c["path"]) == 1 and c["path"][0].get("script") == "s2" and c["path"][0].get("tuple") != "none"),
                          ("selftest-9", lambda c: c["font"]["fam"] == "var" and c["font"]["sub"] == "" and len(c["path"]) == 1 and c["path"][0].get("script") == "s1" and c["path"][0].get("tuple") == "tA"),
                          # (10) an image lookup that differs after a lookup of the same glyph under a lower bit depth limit;
                          # (11) kerning that differs after another text was shaped; (12) a fresh answer that is not the model's
                          ("selftest-10", lambda c: c["font"]["fam"] == "strike" and len(c["path"]) == 2 and c["path"][0].get("f") == 15 and c["path"][1].get("g") == 3 and c["path"][1].get("depth") == 1),
                          ("selftest-11", lambda c: c["font"]["fam"] == "pairs" and len(c["path"]) == 1 and c["path"][0].get("text") == "AB"),
                          ("selftest-12", lambda c: c["font"]["fam"] == "strike" and len(c["path"]) == 1 and c["path"][0].get("f") == 15)):
            cs = [c for c in cases if pick(c)]
            if not cs:
                raise vlib.ToolError("no case generated for the planted event %s" % tag)
            c = cs[0]
            f.write(json.dumps({"i": k, "case": tag, "ev": "Init", "a": {"font": c["font"]}, "o": {}}) + "\n")
            for pc in c["path"]:
                k += 1
                f.write(json.dumps({"i": k, "case": tag, "ev": "Call", "a": {"call": pc, "probe": False}, "o": {"differs": False}}) + "\n")
            obs = None
            if tag in ("selftest-10", "selftest-12"):
                probe = [x["call"] for x in c["fan"] if x["call"]["op"] == "Image" and x["call"]["g"] == 3 and x["call"].get("depth") == 8 and x["call"].get("ppem") == 10][0]
                if tag == "selftest-12":   # the model selects the strike of size 12, depth 8 for it
                    obs = [24, 8]
            elif tag == "selftest-11":
                probe = [x["call"] for x in c["fan"] if x["call"]["op"] == "Shape" and x["call"].get("text") == "AC" and x["call"]["kern"]][0]
            elif tag in ("selftest-8", "selftest-9"):
                probe = [x["call"] for x in c["fan"] if x["call"]["op"] == "Shape" and x["call"]["script"] == "s1" and x["call"]["tuple"] == "tB"
                         and not x["call"]["custom"] and x["call"]["kern"] and x["call"]["frac"]][0]
            else:
                probe = [x["call"] for x in c["fan"] if x["call"]["op"] in ("Image", "ReadCached") or x["call"].get("frac")][0]
            k += 1
            o = {"differs": True} if obs is None else {"differs": False, "obs": obs}
            f.write(json.dumps({"i": k, "case": tag, "ev": "Call", "a": {"call": probe, "probe": True}, "o": o}) + "\n")
            k += 1
    other = {"IMPURE": [], "UNBOUND": []}
    total, mism = vlib.judge_trace_parallel(ctx, "Trace_FontCache", "Trace_FontCache.cfg", trace, "judge",
                                            parts=8 if ctx.quick else 14, other_tags=other, timeout=3000)
    ctx.note("judge: %d events, %d explained impurities, %d unexplained" % (total, len(other["IMPURE"]), len(mism)))
    planted = {m["case"] for m in mism if m["case"].startswith("selftest")} | {m["case"] for m in other["UNBOUND"] if m["case"].startswith("selftest")}
    unbound = [m for m in other["UNBOUND"] if not m["case"].startswith("selftest")]
    if unbound:
        deferred.append("%d fresh answers on strike / pairs fonts are not what the model's font semantics gives, e.g. %s"
                        % (len(unbound), vlib.short(unbound[0], 400)))
    if planted != {"selftest-%d" % n for n in range(1, 13)}:
        raise vlib.ToolError("binding self-check failed: planted events flagged = %s" % sorted(planted))
    violations = []
    for m in other["IMPURE"]:
        font = m["case"].split("/")[0]
        key = "impure|%s|%s" % ("+".join(m["causes"]), m["call"]["op"])
        violations.append(Violation(key, "%s on %s returns a value that depends on earlier calls; stale slot %s (case %s)"
                                    % (vlib.short(m["call"], 160), font, m["causes"], m["case"]), m))
    for m in mism:
        if m["case"].startswith("selftest"):
            continue
        if m["case"].startswith("repeat/"):
            key = "repeat|%s" % m["call"]["op"]
            what = "pure operation %s on %s gave different bytes on repeated runs" % (m["call"]["op"], m["call"]["font"])
        else:
            key = "unpredicted|%s" % m["call"]["op"]
            what = "%s differs from a fresh %s and the cache model has no stale read (case %s)" % (
                vlib.short(m["call"], 160), "ReadCache" if m["call"]["op"] == "ReadCached" else "font", m["case"])
        violations.append(Violation(key, what, m))
    known = vlib.load_known(ctx.prop)
    if deferred and not [v for v in violations if v.key not in known]:
        raise vlib.ToolError("; ".join(deferred))
    if deferred:
        ctx.note("deferred self-checks failed, reported after the violations: %s" % "; ".join(deferred))
    coverage = {
        "states": good.distinct + code.distinct + code2.distinct + defect_states,
        "transitions": good.generated + code.generated + code2.generated + defect_generated,
        "traces_validated_against_impl": rep["histories"] + rec["histories"] + len(groups),
        "samples": sample + [{"repeat": k, "digests": v} for k, v in list(sorted(groups.items()))[:2]],
        "intended_keying_states": good.distinct,
        "code_keying_states": code.distinct + code2.distinct,
        "image_filter_histories_executed": facts.get("img_histories", 0),
        "image_filter_histories_widening_after_a_query": facts.get("img_widen_after_query", 0),
        "image_filter_histories_narrowing_after_a_query": facts.get("img_narrow_after_query", 0),
        "image_filter_histories_incomparable_after_a_query": facts.get("img_incomparable_after_query", 0),
        "image_filter_histories_same_filter_after_a_query": facts.get("img_same_filter_after_query", 0),
        "img_fonts": sorted({x["font"] for x in img_self}),
        "img_font_selfchecks": img_self[:3],
        "img_fresh_results": img_fresh[:3],
        "fill_distinct_keys_before_probe": fk,
        "fill_fraction_probes_on_new_key_after_100_keys": facts.get("fill_frac_probes_on_new_key_after_100_keys", 0),
        "fill_font_selfchecks": fill_self,
        "fill_fresh_results": fill_fresh,
        "fill_random_distinct_arguments": rec.get("fill_random_distinct_arguments"),
        "fill_random_fraction_calls": rec.get("fill_random_fraction_calls"),
        "scope_route_histories_executed": facts.get("scopes_histories", 0),
        "var_histories_executed": facts.get("var_histories", 0),
        "var_histories_failed_rvrn_then_substituting_rvrn": facts.get("var_failed_rvrn_then_substituting_rvrn", 0),
        "var_histories_failed_main_stage_then_shape": facts.get("var_failed_main_stage_then_shape", 0),
        "var_histories_two_tuples_with_different_adjustments": facts.get("var_two_tuples_with_different_adjustments", 0),
        "var_random_input_facts": {k: v for k, v in rec.get("input_facts", {}).items() if k.startswith("var_")},
        "var_font_selfchecks": var_self[:3],
        "var_fresh_results": var_fresh[:3],
        "strike_histories_executed": facts.get("strike_histories", 0),
        "strike_histories_lower_then_higher_bit_depth_limit_on_one_glyph": facts.get("strike_shallow_then_deeper_limit", 0),
        "strike_histories_two_sizes_on_one_glyph": facts.get("strike_two_sizes", 0),
        "pairs_histories_executed": facts.get("pairs_histories", 0),
        "pairs_histories_later_sub_table_then_overlapping_pair": facts.get("pairs_later_sub_table_then_overlapping_pair", 0),
        "strike_pairs_random_input_facts": {k: v for k, v in rfacts.items() if k.startswith("strike_") or k.startswith("pairs_")},
        "strike_font_selfchecks": strike_self[:4],
        "pairs_font_selfchecks": pairs_self[:3],
        "pairs_fresh_results": pairs_fresh[:3],
        "fresh_answers_compared_with_the_model": sum(1 for _ in open(gen_trace) if '"obs"' in _),
        "fresh_answers_not_as_modelled": len(unbound),
        "deferred_selfchecks_failed": deferred,
        "predicted_impure_state_call_pairs": n_pred[0],
        "probes_executed": rep["probes"],
        "generated_histories_executed_by_family": rep["histories_by_family"],
        "probes_by_family": rep["probes_by_family"],
        "probes_differing_by_family": rep.get("differs_by_family", {}),
        "damaged_table_histories_executed": rep["histories_by_family"].get("dmg", 0) + rec["histories_by_family"].get("dmg", 0),
        "colliding_cache_histories_executed": rep["histories_by_family"].get("collide", 0) + rec["histories_by_family"].get("collide", 0),
        "damaged_font_variants": rep["damaged_variants"],
        "damaged_font_variants_dropped_load_did_not_fail": rep["damaged_variants_dropped"],
        "damaged_probes_reporting_the_error": rep["damaged_probes_reporting_the_error"],
        "random_damaged_calls_reporting_the_error": rec["damaged_calls_reporting_the_error"],
        "random_histories_by_family": rec["histories_by_family"],
        "random_calls_that_panicked": rec["calls_that_panicked"],
        "probes_cut_by_a_panic_in_the_history": rep["probes_cut_by_a_panic_in_the_history"],
        "collide_font_selfchecks": selfchecks[:3],
        "defect_class_predictions": defect_pred,
        "probes_differing_from_fresh": rep["differs"],
        "random_history_calls": rec["events"],
        "random_history_calls_differing": rec["differs"],
        "explained_impurities": len(other["IMPURE"]),
        "pure_operation_groups_repeated": len(groups),
        "events_judged": total,
        "binding_selfcheck": "unexplained differences (intact, damaged-table, collide, img, fill, scopes, var, strike and pairs subjects), a fresh answer that is not the model's and unequal digests rejected",
        "exhaustive": True,
        "explanation": "exhaustive over histories of the cache model (%s); random histories and repeated pure operations sampled" % cfg,
    }
    vlib.finish(ctx, LEVEL, coverage, violations, ASSUMPTIONS)


def replay(ctx, path):
    d = json.load(open(path))
    print("C03 violation %s\n%s" % (d["key"], vlib.short(d["detail"], 3000)))
    print("re-run: ./check C03 --tier quick (histories are regenerated deterministically from the model)")
    return 1
