"""C03 - results depend only on the arguments, not on earlier calls.

design       : MC_FontCache with the intended cache keying (CodeKeys = FALSE): AllPure holds for
               every history of <= MaxDepth state-changing calls; ModelExact (a stale read is the
               only way to be impure) holds for both keyings.
spec -> impl : MC_FontCache with the code's keying prints, per reachable cache state, a history
               and the fan of all calls; the harness runs history + call on one Font and the call
               on a fresh Font for seven fonts and records whether the results differ.
impl -> spec : random long histories over a richer universe, every call compared with fresh; pure
               operations repeated in two processes.
Trace_FontCache replays every history through the model: a difference the model explains by a
stale slot is reported under that slot's name, one it does not explain as unpredicted.
"""
import json
import subprocess

import vlib
from vlib import Violation

LEVEL = "model_checking"
ASSUMPTIONS = [
    "results are compared by value through their Debug rendering (glyph ids, unicodes, flags, ligature component "
    "positions, kerning, placement, advances, names); image lookups through ppem and metrics",
    "a fresh font carries the same embedded-image filter as the history's last set_embedded_image_filter "
    "(configuration is an argument, not history)",
    "seven fonts: a synthesized variable font whose GSUB FeatureVariations swap the liga lookup on half of the axis, "
    "sbix and SVG fixtures, Lohit Devanagari, Noto Naskh Arabic, Inter VF, Open Sans",
    "the model abstracts text/script/mask/tuple arguments to identities; masks are chosen so that they stay distinct "
    "after intersection with the font's supported features",
]


def run(ctx):
    binp = vlib.build_harness("c03_purity")
    good = vlib.run_tlc(ctx, "MC_FontCache", "MC_FontCache_good.cfg", "mc_good", workers=6, timeout=900)
    ctx.note("MC_FontCache[intended keys]: %d states, AllPure and ModelExact hold (%.1fs)" % (good.distinct, good.wall))
    cfg = "MC_FontCache_code_quick.cfg" if ctx.quick else "MC_FontCache_code_thorough.cfg"
    cases_path = ctx.path("cases.ndjson")
    n_cases = [0]
    n_pred = [0]
    sample = []
    with open(cases_path, "w") as fc:
        def sink(tag, payload):
            if tag == "CASE":
                fc.write(payload + "\n")
                n_cases[0] += 1
                n_pred[0] += payload.count('"impure":true')
                if len(sample) < 1 and '"impure":true' in payload:
                    c = json.loads(payload)
                    sample.append({"path": c["path"], "impure_calls": [f for f in c["fan"] if f["impure"]][:2]})
        code = vlib.run_tlc(ctx, "MC_FontCache", cfg, "mc_code", workers=6, timeout=1500, sink=sink)
    ctx.note("MC_FontCache[code keys]: %d states, %d cases, %d (state, call) pairs predicted impure (%.1fs)"
             % (code.distinct, n_cases[0], n_pred[0], code.wall))

    gen_trace = ctx.path("gen_trace.ndjson")
    rep = vlib.run_harness(binp, ["replay", cases_path, gen_trace], timeout=3000)
    ctx.note("replay: %s" % json.dumps(rep))
    rec_trace = ctx.path("rec_trace.ndjson")
    rec = vlib.run_harness(binp, ["record", ctx.seed, 70 if ctx.quick else 1400, 40 if ctx.quick else 80, rec_trace], timeout=3000)
    ctx.note("record: %s" % json.dumps(rec))
    # pure operations: two runs in-process, and a second process
    r1, r2 = ctx.path("repeat1.ndjson"), ctx.path("repeat2.ndjson")
    vlib.run_harness(binp, ["repeat", ctx.seed, r1], timeout=1500)
    vlib.run_harness(binp, ["repeat", ctx.seed, r2], timeout=1500)
    groups = {}
    for f in (r1, r2):
        for x in vlib.read_ndjson(f):
            groups.setdefault((x["font"], x["op"]), []).append(x["digest"])
    trace = ctx.path("trace.ndjson")
    n_events = 0
    with open(trace, "w") as f:
        for src in (gen_trace, rec_trace):
            for ln in open(src):
                f.write(ln)
                n_events += 1
        i = 10 ** 7
        for (font, op), ds in sorted(groups.items()):
            i += 1
            f.write(json.dumps({"i": i, "case": "repeat/%s/%s" % (font, op), "ev": "Repeat", "a": {"font": font, "op": op},
                                "o": {"digests": ds}}) + "\n")
        # binding self-check: (1) a call flagged 'differs' that the model cannot explain, (2) unequal digests
        f.write(json.dumps({"i": 10 ** 8, "case": "selftest-1", "ev": "Init", "a": {"font": "x"}, "o": {}}) + "\n")
        f.write(json.dumps({"i": 10 ** 8 + 1, "case": "selftest-1", "ev": "Call",
                            "a": {"call": {"op": "HAdvance", "g": 1}, "probe": False}, "o": {"differs": True}}) + "\n")
        f.write(json.dumps({"i": 10 ** 8 + 2, "case": "selftest-2", "ev": "Repeat", "a": {"font": "x", "op": "subset"},
                            "o": {"digests": ["a:1", "a:1", "b:1"]}}) + "\n")
    other = {"IMPURE": []}
    total, mism = vlib.judge_trace_parallel(ctx, "Trace_FontCache", "Trace_FontCache.cfg", trace, "judge",
                                            parts=8 if ctx.quick else 14, other_tags=other, timeout=3000)
    ctx.note("judge: %d events, %d explained impurities, %d unexplained" % (total, len(other["IMPURE"]), len(mism)))
    planted = {m["case"] for m in mism if m["case"].startswith("selftest")}
    if planted != {"selftest-1", "selftest-2"}:
        raise vlib.ToolError("binding self-check failed: planted events flagged = %s" % sorted(planted))
    violations = []
    for m in other["IMPURE"]:
        font = m["case"].split("/")[0]
        key = "impure|%s|%s" % ("+".join(m["causes"]), m["call"]["op"])
        violations.append(Violation(key, "%s on %s returns a value that depends on earlier calls; stale slot %s (case %s)"
                                    % (vlib.short(m["call"], 160), font, m["causes"], m["case"]), m))
    for m in mism:
        if m["case"].startswith("selftest"):
            continue
        if m["case"].startswith("repeat/"):
            key = "repeat|%s" % m["call"]["op"]
            what = "pure operation %s on %s gave different bytes on repeated runs" % (m["call"]["op"], m["call"]["font"])
        else:
            key = "unpredicted|%s" % m["call"]["op"]
            what = "%s differs from a fresh font and the cache model has no stale read (case %s)" % (vlib.short(m["call"], 160), m["case"])
        violations.append(Violation(key, what, m))
    coverage = {
        "states": good.distinct + code.distinct,
        "transitions": good.generated + code.generated,
        "traces_validated_against_impl": rep["cases"] * rep["fonts"] + rec["histories"] + len(groups),
        "samples": sample + [{"repeat": k, "digests": v} for k, v in list(sorted(groups.items()))[:2]],
        "intended_keying_states": good.distinct,
        "code_keying_states": code.distinct,
        "predicted_impure_state_call_pairs": n_pred[0],
        "probes_executed": rep["probes"],
        "probes_differing_from_fresh": rep["differs"],
        "random_history_calls": rec["events"],
        "random_history_calls_differing": rec["differs"],
        "explained_impurities": len(other["IMPURE"]),
        "pure_operation_groups_repeated": len(groups),
        "events_judged": total,
        "binding_selfcheck": "unexplained difference and unequal digests rejected",
        "exhaustive": True,
        "explanation": "exhaustive over histories of the cache model (%s); random histories and repeated pure operations sampled" % cfg,
    }
    vlib.finish(ctx, LEVEL, coverage, violations, ASSUMPTIONS)


def replay(ctx, path):
    d = json.load(open(path))
    print("C03 violation %s\n%s" % (d["key"], vlib.short(d["detail"], 3000)))
    print("re-run: ./check C03 --tier quick (histories are regenerated deterministically from the model)")
    return 1
