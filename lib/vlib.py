"""Driver library shared by all property checks.

A check = python module lib/props/<id>.py exposing run(ctx) -> Result.
This library: builds the Rust harness against /repo's working tree, runs TLC (explorer /
generator / judge), parses its output, subtracts known findings, writes replay files and
evidence, and turns the result into the exit-code contract:
   0  property held on everything explored (KNOWN-FINDING lines allowed)
   1  at least one violation not listed in known_findings.txt  (VIOLATION line printed)
   2  tool error / timeout (never confused with a verdict)
"""
import hashlib
import json
import os
import re
import shutil
import subprocess
import sys
import time

VERIF = os.path.dirname(os.path.dirname(os.path.abspath(__file__)))
SPECS = os.path.join(VERIF, "specs")
# Overrides used only for mutation trials on a scratch copy (tools/mutant); registered checks
# run without them: harness in /verif/harness, path dependency on /repo.
REPO = os.environ.get("VERIF_REPO", "/repo")
HARNESS = os.environ.get("VERIF_HARNESS_DIR", os.path.join(VERIF, "harness"))
_SCRATCH = os.environ.get("VERIF_SCRATCH", VERIF)
WORK = os.path.join(_SCRATCH, "work")
EVIDENCE = os.path.join(_SCRATCH, "evidence")
REPLAY = os.path.join(_SCRATCH, "replay")
KNOWN = os.path.join(VERIF, "known_findings.txt")


class ToolError(Exception):
    pass


_CRASH_SIGNALS = {4: "SIGILL", 6: "SIGABRT", 7: "SIGBUS", 8: "SIGFPE", 11: "SIGSEGV"}


class Crash(Exception):
    """The harness process died of a fatal signal while calling allsorts (e.g. unbounded recursion)."""
    def __init__(self, signame, cmd, tail):
        Exception.__init__(self, "%s: %s" % (signame, " ".join(cmd)))
        self.signame, self.cmd, self.tail = signame, cmd, tail


class Hang(Exception):
    """A call into allsorts did not return within the harness' watchdog limit (exit status 3 + hang file)."""
    pass


class Ctx:
    def __init__(self, prop, tier, seed):
        self.prop = prop
        self.tier = tier
        self.seed = seed
        self.t0 = time.time()
        self.work = os.path.join(WORK, prop)
        shutil.rmtree(self.work, ignore_errors=True)
        os.makedirs(self.work, exist_ok=True)
        self.quick = tier == "quick"
        self.log = []

    def path(self, name):
        return os.path.join(self.work, name)

    def note(self, msg):
        self.log.append(msg)
        print("[%s %.1fs] %s" % (self.prop, time.time() - self.t0, msg), flush=True)


# ------------------------------------------------------------------------------------------
# harness

_built = set()


def build_harness(bin_name, features=None, target_suffix=""):
    """cargo build --release of one harness binary against /repo's current working tree."""
    key = (bin_name, features, target_suffix)
    env = dict(os.environ)
    env["CARGO_NET_OFFLINE"] = "true"
    cmd = ["cargo", "build", "--release", "--offline", "--bin", bin_name]
    tdir = os.path.join(HARNESS, "target" + target_suffix)
    if target_suffix:
        cmd += ["--target-dir", tdir]
    if features is not None:
        cmd += ["--no-default-features", "--features", features]
    if key not in _built:
        p = subprocess.run(cmd, cwd=HARNESS, env=env, stdout=subprocess.PIPE, stderr=subprocess.STDOUT, text=True)
        if p.returncode != 0:
            tail = "\n".join(l for l in p.stdout.splitlines() if not l.startswith("warning"))[-4000:]
            raise ToolError("harness build failed for %s:\n%s" % (bin_name, tail))
        _built.add(key)
    return os.path.join(tdir, "release", bin_name)


def run_harness(binpath, args, timeout=1800, env_extra=None, stdin=None, hang_path=None):
    env = dict(os.environ)
    env["VERIF_REPO"] = REPO
    if env_extra:
        env.update(env_extra)
    try:
        p = subprocess.run([binpath] + [str(a) for a in args], cwd=VERIF, env=env, stdout=subprocess.PIPE,
                           stderr=subprocess.PIPE, text=True, timeout=timeout, input=stdin)
    except subprocess.TimeoutExpired:
        raise ToolError("harness %s %s timed out after %ss" % (os.path.basename(binpath), args[:2], timeout))
    if p.returncode == 3 and hang_path and os.path.exists(hang_path):
        # vh::sup::Watchdog: a call into allsorts did not return; the description of the call is in the file
        raise Hang(open(hang_path).read().strip())
    if -p.returncode in _CRASH_SIGNALS:
        # the process that runs allsorts on the check's inputs was killed by a fatal signal of its own making (stack
        # overflow -> SIGABRT, SIGSEGV, ...): allsorts did not return. Never SIGKILL / SIGTERM (those come from outside).
        raise Crash(_CRASH_SIGNALS[-p.returncode], [binpath] + [str(a) for a in args], (p.stdout + p.stderr)[-1500:])
    if p.returncode != 0:
        raise ToolError("harness %s %s exited %s:\n%s" % (os.path.basename(binpath), args[:2], p.returncode,
                                                        (p.stdout + p.stderr)[-3000:]))
    last = [l for l in p.stdout.splitlines() if l.strip().startswith("{")]
    return json.loads(last[-1]) if last else {}


# ------------------------------------------------------------------------------------------
# TLC

class TlcResult:
    def __init__(self):
        self.generated = 0
        self.distinct = 0
        self.depth = 0
        self.ok = False
        self.error = None
        self.printed = {}      # tag -> list of payload strings / values
        self.coverage = {}     # action name -> (distinct, total)
        self.wall = 0.0
        self.outfile = None
        self.postcondition_violated = False


_PRINT_RE = re.compile(r'^<<"([A-Z_]+)", (.*)>>$')


def _unquote_tla(s):
    s = s.strip()
    if s.startswith('"') and s.endswith('"'):
        return json.loads(s)
    return s


def run_tlc(ctx, module, cfg, tag, workers=4, timeout=900, env_extra=None, simulate=None, xmx="6g",
            coverage=False, sink=None, depth_first=False):
    """Run TLC on specs/<module>.tla with specs/<cfg>. PrintT(<<"TAG", x>>) lines are collected
    (or streamed to sink(tag, payload) when given). Raises ToolError on anything but a clean
    completion."""
    out = ctx.path(tag + ".tlc.out")
    meta = ctx.path(tag + ".meta")
    env = dict(os.environ)
    jopts = "-Xss1g -Xmx%s" % xmx
    if depth_first:
        jopts += " -Dtlc2.tool.queue.IStateQueue=StateDeque"
    env["JAVA_TOOL_OPTIONS"] = jopts
    if env_extra:
        env.update(env_extra)
    cmd = ["timeout", str(timeout), "tlc", "-workers", str(workers), "-metadir", meta, "-cleanup",
           "-noGenerateSpecTE", "-config", os.path.join(SPECS, cfg)]
    if coverage:
        cmd += ["-coverage", "1"]
    if simulate:
        cmd += ["-simulate", simulate]
    cmd += [os.path.join(SPECS, module + ".tla")]
    res = TlcResult()
    res.outfile = out
    t0 = time.time()
    with open(out, "w") as fo:
        p = subprocess.Popen(cmd, cwd=SPECS, env=env, stdout=subprocess.PIPE, stderr=subprocess.STDOUT, text=True)
        err_lines = []
        in_error = False
        for line in p.stdout:
            line = line.rstrip("\n")
            m = _PRINT_RE.match(line)
            if m:
                tagname, payload = m.group(1), _unquote_tla(m.group(2))
                if sink is not None:
                    sink(tagname, payload)
                else:
                    res.printed.setdefault(tagname, []).append(payload)
                continue
            fo.write(line + "\n")
            if line.startswith("Error:") or "Exception" in line:
                in_error = True
            if in_error and len(err_lines) < 40:
                err_lines.append(line)
            m = re.match(r"^(\d[\d,]*) states generated, (\d[\d,]*) distinct states found", line)
            if m:
                res.generated = int(m.group(1).replace(",", ""))
                res.distinct = int(m.group(2).replace(",", ""))
            m = re.match(r"^The depth of the complete state graph search is (\d+)", line)
            if m:
                res.depth = int(m.group(1))
            if "Model checking completed. No error has been found." in line:
                res.ok = True
            if "Postcondition" in line and "violated" in line:
                res.postcondition_violated = True
            m = re.match(r"^<(\w+) line \d+, col \d+ to line \d+, col \d+ of module (\w+)>: (\d+):(\d+)", line)
            if m:
                res.coverage[m.group(1)] = (int(m.group(3)), int(m.group(4)))
        rc = p.wait()
    res.wall = time.time() - t0
    shutil.rmtree(meta, ignore_errors=True)
    if rc == 124:
        raise ToolError("TLC %s/%s timed out after %ss" % (module, cfg, timeout))
    if simulate and rc == 0:
        res.ok = True
    if not res.ok or rc != 0:
        res.error = "\n".join(err_lines) or ("TLC exit code %s" % rc)
        raise ToolError("TLC %s/%s failed (exit %s):\n%s\n(see %s)" % (module, cfg, rc, res.error, out))
    return res


def _decode_printed(xs):
    return [json.loads(x) if isinstance(x, str) and x.startswith("{") else x for x in xs]


def judge_trace(ctx, module, cfg, trace_path, tag, timeout=1800, xmx="4g", env_extra=None):
    """Run a Trace_* spec over an ndjson trace. Returns (TlcResult, mismatches as dicts).
    Other printed tags stay available (decoded) in res.decoded[tag]."""
    env = {"TRACE": trace_path}
    if env_extra:
        env.update(env_extra)
    res = run_tlc(ctx, module, cfg, tag, workers=1, timeout=timeout, env_extra=env, xmx=xmx)
    res.decoded = {t: _decode_printed(v) for t, v in res.printed.items()}
    mism = res.decoded.get("MISMATCH", [])
    return res, mism


def split_trace(path, parts):
    """Split an ndjson trace into `parts` files at case boundaries (field "case" changes)."""
    lines = open(path).read().splitlines()
    if parts <= 1 or len(lines) < 2000:
        return [path]
    target = len(lines) // parts + 1
    outs, cur, last_case = [], [], None
    for ln in lines:
        try:
            case = json.loads(ln).get("case")
        except Exception:
            case = None
        if len(cur) >= target and case != last_case:
            outs.append(cur)
            cur = []
        cur.append(ln)
        last_case = case
    if cur:
        outs.append(cur)
    files = []
    for k, chunk in enumerate(outs):
        f = "%s.part%d" % (path, k)
        with open(f, "w") as fo:
            fo.write("\n".join(chunk) + "\n")
        files.append(f)
    return files


def judge_trace_parallel(ctx, module, cfg, trace_path, tag, parts=8, timeout=1800, xmx="3g", env_extra=None,
                         other_tags=None):
    """Judge a big trace with several JVMs in parallel. Returns (total events, mismatches);
    when other_tags (a dict tag -> list) is given, lines printed under those tags are appended to it."""
    import concurrent.futures
    files = split_trace(trace_path, parts)
    total, mism, wall = 0, [], 0.0

    def one(k_f):
        k, f = k_f
        return judge_trace(ctx, module, cfg, f, "%s.%d" % (tag, k), timeout=timeout, xmx=xmx, env_extra=env_extra)
    with concurrent.futures.ThreadPoolExecutor(max_workers=len(files)) as ex:
        for res, mm in ex.map(one, list(enumerate(files))):
            total += res.distinct - 1
            mism.extend(mm)
            if other_tags is not None:
                for t in other_tags:
                    other_tags[t].extend(res.decoded.get(t, []))
    return total, mism


# ------------------------------------------------------------------------------------------
# findings, evidence, verdict

class Violation:
    def __init__(self, key, what, detail):
        self.key = key          # stable identifier of the specific failing thing
        self.what = what        # one line
        self.detail = detail    # JSON-able replay content


def load_known(prop):
    known = {}
    if os.path.exists(KNOWN):
        for ln in open(KNOWN):
            ln = ln.strip()
            m = re.match(r"^known:\s+property=(\S+)\s+key=(\S+)\s+(.*)$", ln)
            if m and m.group(1) == prop:
                known[m.group(2)] = m.group(3)
    return known


def finish(ctx, level, coverage, violations, assumptions, tool_error=None):
    """Write evidence, replay files; print verdict lines; exit."""
    os.makedirs(EVIDENCE, exist_ok=True)
    known = load_known(ctx.prop)
    new_viol, known_hit = [], {}
    for v in violations:
        if v.key in known:
            known_hit.setdefault(v.key, v)
        else:
            new_viol.append(v)
    # one replay file per distinct key
    by_key = {}
    for v in new_viol:
        by_key.setdefault(v.key, v)
    ev = {
        "property_id": ctx.prop,
        "tier": ctx.tier,
        "seed": ctx.seed,
        "level": level,
        "coverage": coverage,
        "assumptions": assumptions,
        "wall_s": round(time.time() - ctx.t0, 2),
        "violations": len(by_key),
        "known_findings_hit": sorted(known_hit.keys()),
        "log": ctx.log[-50:],
    }
    if tool_error:
        ev["tool_error"] = str(tool_error)[:2000]
    with open(os.path.join(EVIDENCE, ctx.prop + ".json"), "w") as f:
        json.dump(ev, f, indent=1, sort_keys=True)
        f.write("\n")
    if tool_error:
        print("TOOL-ERROR property=%s %s" % (ctx.prop, str(tool_error)[:3000]), flush=True)
        sys.exit(2)
    for k, v in sorted(known_hit.items()):
        print("KNOWN-FINDING: property=%s key=%s %s" % (ctx.prop, k, known[k]), flush=True)
    if by_key:
        d = os.path.join(REPLAY, ctx.prop)
        os.makedirs(d, exist_ok=True)
        for k, v in sorted(by_key.items()):
            h = hashlib.sha1(k.encode()).hexdigest()[:12]
            path = os.path.join(d, h + ".json")
            with open(path, "w") as f:
                json.dump({"property": ctx.prop, "key": k, "what": v.what, "detail": v.detail}, f, indent=1)
                f.write("\n")
            print("VIOLATION property=%s replay=%s key=%s %s" % (ctx.prop, path, k, v.what[:300]), flush=True)
        sys.exit(1)
    print("OK property=%s tier=%s wall=%.1fs" % (ctx.prop, ctx.tier, time.time() - ctx.t0), flush=True)
    sys.exit(0)


def read_ndjson(path):
    out = []
    with open(path) as f:
        for ln in f:
            ln = ln.strip()
            if ln:
                out.append(json.loads(ln))
    return out


def write_ndjson(path, items):
    with open(path, "w") as f:
        for it in items:
            f.write(json.dumps(it, separators=(",", ":")) + "\n")


def short(x, n=400):
    s = json.dumps(x, separators=(",", ":")) if not isinstance(x, str) else x
    return s if len(s) <= n else s[:n] + "..."
